import HabuVerif.Gen.CharTable
import HabuVerif.Core.Fields
/-!
# Line protocol for the inputs / fields / string-semantics correspondence streams

`step : String → String` answers one operation per line (see `tools/harness/inputs_stream.py` and
`tools/harness/fields_stream.py`).  Texts travel as `x` + hex of their UTF-8 encoding, floats as
16-hex-digit IEEE-754 bit patterns.  The float operations that are parameters of the model
(`float(str)` rounding, `round(x, n)`, `'%.nf'`) are instantiated here with a small exact
integer implementation on bit patterns, so that the streams also exercise them against CPython
(`step`); `stepWith ops` runs the same protocol with another float semantics, e.g. one built from
`HabuVerif.F64` (checked in the builder's scratch copy: it agrees on everything except the sign and
payload of NaNs, which `F64` does not keep).
Not a model file in the sense of the proofs (nothing is proved about the bit-level helpers here);
core only, so it can be compiled into the driver.
-/
set_option autoImplicit false

namespace HabuVerif.InputsDrv

open PyStr Inputs Fields Regex

/-! ## binary64 on bit patterns (exact integer arithmetic) -/

def pow2 (n : Nat) : Nat := 2 ^ n
def infBits : Nat := 0x7FF0000000000000
def signBit : Nat := 0x8000000000000000

/-- nearest binary64 (ties to even) of the positive rational `num/den`, as unsigned bit pattern;
overflow gives the pattern of `inf` -/
def ratToBits (num den : Nat) : Nat :=
  if num == 0 || den == 0 then 0
  else
    let l : Int := (Nat.log2 num : Int) - (Nat.log2 den : Int)
    -- quotient with exponent e: floor(num / (den * 2^e))
    let quot (e : Int) : Nat × Nat × Nat :=
      let sn := if e < 0 then num * pow2 (-e).toNat else num
      let sd := if e < 0 then den else den * pow2 e.toNat
      (sn / sd, sn % sd, sd)
    let e0 : Int := l - 52
    let q0 := (quot e0).1
    let e1 : Int := if q0 ≥ pow2 53 then e0 + 1 else if q0 < pow2 52 then e0 - 1 else e0
    let e : Int := if e1 < -1074 then -1074 else e1
    let (q, r, sd) := quot e
    let q' := if 2 * r > sd || (2 * r == sd && q % 2 == 1) then q + 1 else q
    let bits := (e + 1074).toNat * pow2 52 + q'
    if bits ≥ infBits then infBits else bits

def decDigitsLen (n : Nat) : Nat := (natDec n).length

/-- `float(literal)` -/
def decToBits : DecLit → Nat
  | .inf neg => (if neg then signBit else 0) + infBits
  | .nan neg => (if neg then signBit else 0) + 0x7FF8000000000000
  | .finite neg m e =>
    let s := if neg then signBit else 0
    if m == 0 then s
    else
      let d : Int := decDigitsLen m
      if e + d > 400 then s + infBits
      else if e + d < -400 then s
      else if e ≥ 0 then s + ratToBits (m * 10 ^ e.toNat) 1
      else s + ratToBits m (10 ^ (-e).toNat)

/-- a finite bit pattern as `(negative, num, den)` -/
def bitsToRat (b : Nat) : Bool × Nat × Nat :=
  let neg := b ≥ signBit
  let a := b % signBit
  let ex := a / pow2 52
  let f := a % pow2 52
  let m := if ex == 0 then f else pow2 52 + f
  let e : Int := if ex == 0 then -1074 else (ex : Int) - 1075
  if e ≥ 0 then (neg, m * pow2 e.toNat, 1) else (neg, m, pow2 (-e).toNat)

def isFiniteBits (b : Nat) : Bool := (b % signBit) / pow2 52 != 2047

/-- round-half-even of `num/den` to an integer -/
def rneDiv (num den : Nat) : Nat :=
  let q := num / den
  let r := num % den
  if 2 * r > den || (2 * r == den && q % 2 == 1) then q + 1 else q

/-- `round(x, n)` (CPython: correctly rounded decimal string of `x` with `n` places, read back) -/
def roundBits (b n : Nat) : Nat :=
  if !isFiniteBits b then b
  else if n > 323 then b
  else
    let (neg, num, den) := bitsToRat b
    let q := rneDiv (num * 10 ^ n) den
    (if neg then signBit else 0) + ratToBits q (10 ^ n)

def padLeft (k : Nat) (s : Text) : Text := List.replicate (k - s.length) '0' ++ s

/-- `f'{x:.{n}f}'` -/
def fmtBits (b n : Nat) : Text :=
  let neg := b ≥ signBit
  if !isFiniteBits b then
    if (b % signBit) % pow2 52 != 0 then ['n','a','n']
    else (if neg then ['-'] else []) ++ ['i','n','f']
  else
    let (_, num, den) := bitsToRat b
    let q := rneDiv (num * 10 ^ n) den
    let ds := padLeft (n + 1) (natDec q)
    let ip := ds.take (ds.length - n)
    let fp := ds.drop (ds.length - n)
    (if neg then ['-'] else []) ++ ip ++ (if n == 0 then [] else '.' :: fp)

def bitsOps : FloatOps Nat where
  zero := 0
  ofLit := decToBits
  isFinite := isFiniteBits
  roundN := roundBits
  fmt := fmtBits

/-! ## encoding helpers -/

def hexDigit (n : Nat) : Char := if n < 10 then Char.ofNat (48 + n) else Char.ofNat (87 + n)

def hexVal (c : Char) : Option Nat :=
  if '0' ≤ c && c ≤ '9' then some (c.toNat - 48)
  else if 'a' ≤ c && c ≤ 'f' then some (c.toNat - 87)
  else if 'A' ≤ c && c ≤ 'F' then some (c.toNat - 55)
  else none

def hexBytes : List Char → Option (List UInt8)
  | [] => some []
  | [_] => none
  | a :: b :: r => do
    let x ← hexVal a
    let y ← hexVal b
    let t ← hexBytes r
    pure (UInt8.ofNat (16 * x + y) :: t)

/-- `x<hex of utf-8>` → text -/
def decText (tok : String) : Option Text :=
  match tok.toList with
  | 'x' :: h => do
    let bs ← hexBytes h
    let s ← String.fromUTF8? (ByteArray.mk bs.toArray)
    pure s.toList
  | _ => none

def encText (t : Text) : String :=
  let bs := (String.ofList t).toUTF8
  String.ofList ('x' :: bs.toList.flatMap fun b => [hexDigit (b.toNat / 16), hexDigit (b.toNat % 16)])

def hex16 (b : Nat) : String :=
  String.ofList ((List.range 16).map fun i => hexDigit ((b / 16 ^ (15 - i)) % 16))

def parseHexNat (s : String) : Option Nat :=
  s.toList.foldl (fun acc c => do let a ← acc; let v ← hexVal c; pure (16 * a + v)) (some 0)

/-- integers travel as `[-]hex` (CPython refuses to print integers with more than 4300 digits) -/
def parseIntHex (s : String) : Option Int :=
  match s.toList with
  | '-' :: r => if r.isEmpty then none else (parseHexNat (String.ofList r)).map fun n => -(n : Int)
  | r => if r.isEmpty then none else (parseHexNat (String.ofList r)).map fun n => (n : Int)

def natHex (n : Nat) : String := String.ofList (Nat.toDigits 16 n)

def showIntHex (i : Int) : String := if i < 0 then "-" ++ natHex i.natAbs else natHex i.natAbs

def splitOnChar (c : Char) (s : String) : List String := s.splitOn (String.singleton c)

def decTexts (s : String) : Option (List Text) :=
  if s.isEmpty then some [] else (splitOnChar ',' s).mapM decText

/-- regex from prefix tokens -/
def parseRe : Nat → List String → Option (Re × List String)
  | 0, _ => none
  | fuel + 1, toks =>
    match toks with
    | "E" :: r => some (.empty, r)
    | "e" :: r => some (.eps, r)
    | "." :: r => some (.any, r)
    | "^" :: r => some (.bol, r)
    | "$" :: r => some (.eol, r)
    | "c" :: cp :: r => do let n ← cp.toNat?; pure (.chr (Char.ofNat n), r)
    | "k" :: neg :: n :: r => do
      let k ← n.toNat?
      let rec ranges : Nat → List String → Option (List (Char × Char) × List String)
        | 0, r => some ([], r)
        | k + 1, lo :: hi :: r => do
          let a ← lo.toNat?
          let b ← hi.toNat?
          let (t, r') ← ranges k r
          pure ((Char.ofNat a, Char.ofNat b) :: t, r')
        | _, _ => none
      let (rs, r') ← ranges k r
      pure (.cls (neg == "1") rs, r')
    | "C" :: r => do
      let (a, r1) ← parseRe fuel r
      let (b, r2) ← parseRe fuel r1
      pure (.cat a b, r2)
    | "A" :: r => do
      let (a, r1) ← parseRe fuel r
      let (b, r2) ← parseRe fuel r1
      pure (.alt a b, r2)
    | "R" :: m :: mx :: r => do
      let lo ← m.toNat?
      let hi ← if mx == "-" then some none else mx.toNat?.map some
      let (a, r1) ← parseRe fuel r
      pure (.rep a lo hi, r1)
    | _ => none

def showRe : Re → List String
  | .empty => ["E"]
  | .eps => ["e"]
  | .any => ["."]
  | .bol => ["^"]
  | .eol => ["$"]
  | .chr c => ["c", toString c.toNat]
  | .cls neg rs => ["k", if neg then "1" else "0", toString rs.length] ++
      rs.flatMap fun (a, b) => [toString a.toNat, toString b.toNat]
  | .cat a b => "C" :: (showRe a ++ showRe b)
  | .alt a b => "A" :: (showRe a ++ showRe b)
  | .rep a m mx => ["R", toString m, match mx with | some k => toString k | none => "-"] ++ showRe a

def parseReTok (s : String) : Option Re :=
  let toks := splitOnChar ',' s
  match parseRe (toks.length + 1) toks with
  | some (r, []) => some r
  | _ => none

def parseEnum (ident stringy cls members : String) : Option EnumTy := do
  let i ← ident.toNat?
  let c ← decText cls
  let ms ← decTexts members
  pure { ident := i, members := ms, stringy := stringy == "1", clsName := c }

def parseSpec (tok : String) : Option InputSpec :=
  match splitOnChar ':' tok with
  | ["str"] => some .str
  | ["bool"] => some .bool
  | ["int"] => some .int
  | ["float"] => some .float
  | ["ssn"] => some .ssn
  | ["enum", i, ae, st, cls, ms] => do
    let e ← parseEnum i st cls ms
    pure (.enum e (ae == "1"))
  | ["regex", r] => (parseReTok r).map .regex
  | _ => none

def parseFieldTy (tok : String) : Option FieldTy :=
  match splitOnChar ':' tok with
  | ["str"] => some .str
  | ["bool"] => some .bool
  | ["int"] => some .int
  | ["float", p] => p.toNat?.map .float
  | ["enum", i, st, cls, ms] => (parseEnum i st cls ms).map .enum
  | _ => none

def showFieldTy : FieldTy → String
  | .str => "str"
  | .bool => "bool"
  | .int => "int"
  | .float p => s!"float:{p}"
  | .enum e => s!"enum:{e.ident}"

def parseVal (tok : String) : Option (PyVal Nat) :=
  match splitOnChar ':' tok with
  | ["none"] => some .none
  | ["bool", b] => some (.bool (b == "1"))
  | ["int", i] => (parseIntHex i).map .int
  | ["float", h] => (parseHexNat h).map .float
  | ["str", t] => (decText t).map .str
  | ["enum", i, m] => do
    let n ← i.toNat?
    let t ← decText m
    pure (.enumMember n t)
  | ["strsub", tag, t] => do
    let n ← tag.toNat?
    let s ← decText t
    pure (.strSub n s)
  | ["other", tag] => tag.toNat?.map .other
  | _ => none

def showVal : PyVal Nat → String
  | .none => "none"
  | .bool b => if b then "bool:1" else "bool:0"
  | .int i => "int:" ++ showIntHex i
  | .float b => "float:" ++ hex16 b
  | .str s => "str:" ++ encText s
  | .enumMember i m => s!"enum:{i}:" ++ encText m
  | .strSub t s => s!"strsub:{t}:" ++ encText s
  | .other t => s!"other:{t}"

def showErr : PyErr → String
  | .valueError => "raise ValueError"
  | .keyError => "raise KeyError"
  | .typeError => "raise TypeError"
  | .unmodelled => "unmodelled"

def showExcept {α : Type} (f : α → String) : Except PyErr α → String
  | .ok v => f v
  | .error e => showErr e

def showBool (b : Bool) : String := if b then "True" else "False"

def T : CharTable := CharTable.cpython

def showOptNat : Option Nat → String
  | some n => toString n
  | none => "-"

/-- one operation, for a given float semantics on bit patterns -/
def stepWith (ops : FloatOps Nat) (line : String) : String :=
  match line.splitOn " " with
  | ["chr", cp] =>
    match cp.toNat? with
    | some n =>
      let c := Char.ofNat n
      s!"{showBool (T.isSpace c)} {showBool (numSpace T c)} {showOptNat (T.decimalValue c)} {showOptNat (numDigit T c)} " ++
        ",".intercalate ((T.lower c).map fun d => toString d.toNat) ++ " " ++
        ",".intercalate ((lower T [c, capitalSigma]).map fun d => toString d.toNat) ++ " " ++
        ",".intercalate ((lower T ['A', capitalSigma, c, 'A']).map fun d => toString d.toNat)
    | none => "bad-op"
  | ["strip", t] => match decText t with
    | some s => encText (strip T s)
    | none => "bad-op"
  | ["lower", t] => match decText t with
    | some s => encText (lower T s)
    | none => "bad-op"
  | ["rmdash", t] => match decText t with
    | some s => encText (removeDash s)
    | none => "bad-op"
  | ["int", t] => match decText t with
    | some s => (match parseInt T s with | some i => "int:" ++ showIntHex i | none => "raise ValueError")
    | none => "bad-op"
  | ["float", t] => match decText t with
    | some s => (match parseFloatLit T s with
      | some d => "float:" ++ hex16 (ops.ofLit d)
      | none => "raise ValueError")
    | none => "bad-op"
  | ["intstr", i] => match parseIntHex i with
    | some n => (match intStr T n with | some s => encText s | none => "raise ValueError")
    | none => "bad-op"
  | ["valid", sp, t] => match parseSpec sp, decText t with
    | some sp, some s => showExcept showBool (validE T ops sp s) ++ " " ++ showBool (valid T ops sp s)
    | _, _ => "bad-op"
  | ["value", sp, t] => match parseSpec sp, decText t with
    | some sp, some s => showExcept showVal (value T ops sp s)
    | _, _ => "bad-op"
  | ["getitem", sp, t] =>
    let spec : Option (Option InputSpec) := if sp == "-" then some none else (parseSpec sp).map some
    let text : Option (Option Text) := if t == "-" then some none else (decText t).map some
    match spec, text with
    | some spec, some text =>
      match getitem T ops spec text with
      | .noSpec => "noSpec"
      | .missing => "missing"
      | .invalid s => "invalid " ++ encText s
      | .ok v => "ok " ++ showVal v
      | .raised e => "raised " ++ showErr e
    | _, _ => "bad-op"
  | ["rx", r, t] => match parseReTok r, decText t with
    | some r, some s => showBool (reMatch r s)
    | _, _ => "bad-op"
  | ["rxconst", "routing"] => ",".intercalate (showRe routingRe)
  | ["rxconst", "account"] => ",".intercalate (showRe accountRe)
  | ["fvalue", ft, v] => match parseFieldTy ft, parseVal v with
    | some ft, some v => showExcept showVal (fieldValue T ops ft v)
    | _, _ => "bad-op"
  | ["ftostr", ft, v] => match parseFieldTy ft, parseVal v with
    | some ft, some v => showExcept encText (Fields.toString T ops ft v)
    | _, _ => "bad-op"
  | ["ffromstr", ft, t] => match parseFieldTy ft, decText t with
    | some ft, some s => showExcept showVal (fromString T ops ft s)
    | _, _ => "bad-op"
  | ["fofinput", sp] => match parseSpec sp with
    | some sp => showExcept showFieldTy (fieldOfInput sp)
    | none => "bad-op"
  | ["ifvalue", sp, t] => match parseSpec sp, decText t with
    | some sp, some s => showExcept showVal (do
        let ft ← fieldOfInput sp            -- InputForm.__init__
        let v ← value T ops sp s        -- the line definition `i[base_name]`
        fieldValue T ops ft v)
    | _, _ => "bad-op"
  | ["fround", h, n] => match parseHexNat h, n.toNat? with
    | some b, some n => hex16 (ops.roundN b n)
    | _, _ => "bad-op"
  | ["ffmt", h, n] => match parseHexNat h, n.toNat? with
    | some b, some n => encText (ops.fmt b n)
    | _, _ => "bad-op"
  | _ => "bad-op"

/-- one operation (floats: the exact integer implementation of this file) -/
def step (line : String) : String := stepWith bitsOps line

end HabuVerif.InputsDrv
