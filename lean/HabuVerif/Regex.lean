/-!
# A tiny regular-expression fragment with `re.match` semantics

The fragment needed for the `RegexInput`s of the shipped forms (and a little more, so that the
matcher can be tested on generated patterns): literal characters, character classes given by
ranges (possibly negated), `.`, concatenation, alternation, counted / unbounded repetition and the
anchors `^` and `$` (no flags: `^` only matches at the start of the text, `$` at the end of the text
or just before a newline that is the last character — Python's default, non-MULTILINE meaning).
Groups only matter for parsing.  No back-references, look-around, possessive or atomic constructs,
so the existence of a match for Python's backtracking engine is the language-theoretic one; lazy
quantifiers have the same language as greedy ones.

`reMatch r s = bool(re.compile(p).match(s))` (a PREFIX match at position 0) is computed with
Brzozowski derivatives; the zero-width anchors are resolved against the context of the current
position.  The declarative semantics is `HabuVerif.Regex.Matches` in `Proofs/RegexLemmas.lean`.
Core only.
-/
set_option autoImplicit false

namespace HabuVerif.Regex

inductive Re where
  /-- matches nothing -/
  | empty
  /-- matches the empty text -/
  | eps
  | chr (c : Char)
  /-- `[a-bc-d…]` / `[^a-bc-d…]` -/
  | cls (neg : Bool) (ranges : List (Char × Char))
  /-- `.` (everything but `\n`) -/
  | any
  /-- `^` -/
  | bol
  /-- `$` -/
  | eol
  | cat (r s : Re)
  | alt (r s : Re)
  /-- `r{min,max}`; `max = none` is unbounded (`*` = `rep r 0 none`, `+` = `rep r 1 none`,
  `?` = `rep r 0 (some 1)`) -/
  | rep (r : Re) (min : Nat) (max : Option Nat)
deriving DecidableEq, Repr, Inhabited

/-- what the anchors see at a position -/
structure Ctx where
  /-- position 0 -/
  atStart : Bool
  /-- the rest of the text is empty or a single `\n` -/
  atEnd : Bool
deriving DecidableEq, Repr

def inRanges (c : Char) : List (Char × Char) → Bool
  | [] => false
  | (lo, hi) :: rs => (lo.toNat ≤ c.toNat && c.toNat ≤ hi.toNat) || inRanges c rs

def predOpt : Option Nat → Option Nat
  | none => none
  | some k => some (k - 1)

/-- `min ≤ max` -/
def boundOk (m : Nat) : Option Nat → Bool
  | none => true
  | some k => m ≤ k

/-- does `r` match the empty text at a position with context `x`? -/
def nullable (x : Ctx) : Re → Bool
  | .empty => false
  | .eps => true
  | .chr _ => false
  | .cls _ _ => false
  | .any => false
  | .bol => x.atStart
  | .eol => x.atEnd
  | .cat r s => nullable x r && nullable x s
  | .alt r s => nullable x r || nullable x s
  | .rep r m mx => m == 0 || (nullable x r && boundOk m mx)

def mkCat (r s : Re) : Re :=
  match r, s with
  | .empty, _ => .empty
  | _, .empty => .empty
  | .eps, s => s
  | r, s => .cat r s

def mkAlt (r s : Re) : Re :=
  match r, s with
  | .empty, s => s
  | r, .empty => r
  | r, s => if r = s then r else .alt r s

/-- derivative of `r{m,mx}` from the derivative `dr` and the nullability `nr` of the body:
`r{m+1,k+1} = r · r{m,k}`; in `r{0,k+1} = ε | r · r{0,k}` an empty first iteration can be dropped. -/
def derivRep (dr : Re) (nr : Bool) (r : Re) : Nat → Option Nat → Re
  | _, some 0 => .empty
  | 0, mx => mkCat dr (.rep r 0 (predOpt mx))
  | m + 1, mx =>
    mkAlt (mkCat dr (.rep r m (predOpt mx)))
      (if nr then derivRep dr nr r m (predOpt mx) else .empty)

/-- Brzozowski derivative by the character `c` that stands at a position with context `x` -/
def deriv (x : Ctx) (c : Char) : Re → Re
  | .empty => .empty
  | .eps => .empty
  | .chr d => if c = d then .eps else .empty
  | .cls neg rs => if inRanges c rs != neg then .eps else .empty
  | .any => if c = '\n' then .empty else .eps
  | .bol => .empty
  | .eol => .empty
  | .cat r s => mkAlt (mkCat (deriv x c r) s) (if nullable x r then deriv x c s else .empty)
  | .alt r s => mkAlt (deriv x c r) (deriv x c s)
  | .rep r m mx => derivRep (deriv x c r) (nullable x r) r m mx

def endCtx (rest : List Char) : Bool :=
  match rest with
  | [] => true
  | ['\n'] => true
  | _ => false

/-- is there a match starting at the current position? -/
def matchFrom (r : Re) (atStart : Bool) : List Char → Bool
  | [] => nullable ⟨atStart, true⟩ r
  | c :: cs =>
    let x : Ctx := ⟨atStart, endCtx (c :: cs)⟩
    nullable x r || matchFrom (deriv x c r) false cs

/-- `bool(re.compile(p).match(s))` -/
def reMatch (r : Re) (s : List Char) : Bool := matchFrom r true s

/-! ## the two patterns of the shipped forms -/

def digit : Re := .cls false [('0', '9')]

/-- `^(0[1-9]|1[0-2]|2[1-9]|3[0-2])[0-9]{7}$` (`routing_number` of f1040, all years) -/
def routingRe : Re :=
  .cat .bol
    (.cat
      (.alt (.cat (.chr '0') (.cls false [('1', '9')]))
        (.alt (.cat (.chr '1') (.cls false [('0', '2')]))
          (.alt (.cat (.chr '2') (.cls false [('1', '9')]))
            (.cat (.chr '3') (.cls false [('0', '2')])))))
      (.cat (.rep digit 7 (some 7)) .eol))

/-- `^[0-9A-Za-z\-]{1,17}$` (`account_number` of f1040, all years) -/
def accountRe : Re :=
  .cat .bol
    (.cat (.rep (.cls false [('0', '9'), ('A', 'Z'), ('a', 'z'), ('-', '-')]) 1 (some 17)) .eol)

end HabuVerif.Regex
