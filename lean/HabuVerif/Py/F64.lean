/-!
# Exact IEEE-754 binary64 and CPython 3.12 `float` semantics, in pure integer arithmetic

Everything here is executable (imports nothing outside Lean core) and is checked bit-for-bit against
CPython 3.12.1 by `tools/harness/f64_stream.py`.  The order-theoretic facts are proved in
`HabuVerif/Proofs/F64Lemmas.lean`.

## Representation

Every finite double is an integer multiple of `2^-1074` (the smallest subnormal).  We therefore
measure everything in *units of `2^-1074`* ("scaled units"), which makes every exponent a natural
number and every exact intermediate result a quotient of two naturals:

`finite neg m e` denotes the real number `(-1)^neg · m · 2^(e - 1074)`, i.e. `m * 2^e` scaled units.

Canonical form (`F64.WF`): `m < 2^53`, `e ≤ 2045`, and `2^52 ≤ m` (normal) or `e = 0` (subnormal or
zero; note the smallest normal binade also has `e = 0`).  All operations accept arbitrary triples
(they only look at the exact value `m * 2^e` and the sign flag) and always *return* canonical
values; `ofBits` produces canonical values only.  `toBits` is meaningful on canonical values only.

All rounding goes through one function, `ofScaled neg N D`, the IEEE round-to-nearest-even of the
rational `N / D` scaled units (`D > 0`).
-/

namespace HabuVerif

/-- An IEEE-754 binary64 datum. `finite neg m e` is `(-1)^neg · m · 2^(e-1074)`. -/
inductive F64 where
  | finite (neg : Bool) (m : Nat) (e : Nat)
  | inf (neg : Bool)
  | nan
  deriving DecidableEq, Repr, Inhabited

namespace F64

/-! ## Rounding -/

/-- round-half-even of `num / den` (`den > 0`) to a natural number -/
def rneDiv (num den : Nat) : Nat :=
  let q := num / den
  let r := num % den
  if 2 * r < den then q else if 2 * r > den then q + 1 else if q % 2 = 0 then q else q + 1

/-- The exponent (in scaled units) of the binade that `N / D` falls in: `0` when `N / D < 2^53`,
otherwise the `j` with `2^(52+j) ≤ N / D < 2^(53+j)`. -/
def expo (N D : Nat) : Nat := (N / D).log2 - 52

/-- the largest exponent of a finite double, in scaled units (`971 + 1074`) -/
def maxE : Nat := 2045

/-- `sys.float_info.max` -/
def maxFinite : F64 := finite false (2 ^ 53 - 1) maxE

/-- build a finite value, overflowing to infinity -/
def mk (neg : Bool) (m e : Nat) : F64 :=
  if e > maxE then inf neg else finite neg m e

/-- Round-to-nearest-even of `N / D` scaled units (`D > 0`) with sign flag `neg` (also used for a
zero result).  Overflows to `inf neg`.
(Irreducible: proofs use its characterisation in `Proofs/F64Lemmas.lean`, and the elaborator must
never try to evaluate it on symbolic arguments; use `decide +kernel`/`unfold` to compute with it.) -/
@[irreducible] def ofScaled (neg : Bool) (N D : Nat) : F64 :=
  let j := expo N D
  let m := rneDiv N (D * 2 ^ j)
  if m = 2 ^ 53 then mk neg (2 ^ 52) (j + 1) else mk neg m j

/-- `2^1074`: one real unit, in scaled units -/
def one : Nat := 2 ^ 1074

/-! ## Constants, classification, bit patterns -/

def zero : F64 := finite false 0 0
def negZero : F64 := finite true 0 0

def isNaN : F64 → Bool
  | nan => true
  | _ => false

def isInf : F64 → Bool
  | inf _ => true
  | _ => false

def isFinite : F64 → Bool
  | finite .. => true
  | _ => false

/-- the sign flag (false for nan) -/
def signBit : F64 → Bool
  | finite n _ _ => n
  | inf n => n
  | nan => false

/-- numerically zero (`x == 0.0`) -/
def isZero : F64 → Bool
  | finite _ m _ => m = 0
  | _ => false

/-- canonical form, as a Boolean test -/
def isWF : F64 → Bool
  | finite _ m e => decide (m < 2 ^ 53) && decide (e ≤ maxE) && (decide (2 ^ 52 ≤ m) || decide (e = 0))
  | _ => true

/-- canonical form of finite values; `inf` and `nan` are always canonical.  (Stated through the
Boolean test so that it never unfolds into the operation it is applied to.) -/
def WF (x : F64) : Prop := x.isWF = true

instance : DecidablePred WF := fun x => inferInstanceAs (Decidable (x.isWF = true))

theorem wf_finite_iff (s : Bool) (m e : Nat) :
    WF (finite s m e) ↔ m < 2 ^ 53 ∧ e ≤ maxE ∧ (2 ^ 52 ≤ m ∨ e = 0) := by
  simp [WF, isWF, and_assoc]

/-- decode an IEEE bit pattern given as a natural number below `2^64`: sign bit 63, biased exponent
bits 62–52, fraction bits 51–0 (written with `/` and `%` rather than shifts and masks so that
`omega` can reason about it) -/
def ofBitsNat (n : Nat) : F64 :=
  let neg := decide (2 ^ 63 ≤ n)
  let ex := n / 2 ^ 52 % 2048
  let fr := n % 2 ^ 52
  if ex = 2047 then (if fr = 0 then inf neg else nan)
  else if ex = 0 then finite neg fr 0
  else finite neg (fr + 2 ^ 52) (ex - 1)

def ofBits (b : UInt64) : F64 := ofBitsNat b.toNat

def signNat (neg : Bool) : Nat := if neg then 2 ^ 63 else 0

/-- IEEE bit pattern as a natural number (nan canonicalised to the positive quiet nan
`0x7ff8000000000000`) -/
def toBitsNat : F64 → Nat
  | nan => 0x7FF8000000000000
  | inf neg => signNat neg + 0x7FF0000000000000
  | finite neg m e =>
    if m < 2 ^ 52 then signNat neg + m
    else signNat neg + (e + 1) * 2 ^ 52 + (m - 2 ^ 52)

def toBits (x : F64) : UInt64 := (toBitsNat x).toUInt64

/-! ## Exact values -/

/-- attach a sign to a magnitude -/
def signed (neg : Bool) (n : Nat) : Int := if neg then -(n : Int) else (n : Int)

/-- exact value of a finite datum in scaled units (0 for inf/nan) -/
def sval : F64 → Int
  | finite neg m e => signed neg (m * 2 ^ e)
  | _ => 0

/-- exact value as a rational number (real units); `none` for inf/nan -/
def toRatOpt : F64 → Option Rat
  | finite neg m e => some (mkRat (signed neg (m * 2 ^ e)) one)
  | _ => none

/-- Two finite values as exact integers over a common power of two (cheap: no 2^1074 involved). -/
def aligned (n1 : Bool) (m1 e1 : Nat) (n2 : Bool) (m2 e2 : Nat) : Int × Int :=
  let e0 := min e1 e2
  (signed n1 (m1 * 2 ^ (e1 - e0)), signed n2 (m2 * 2 ^ (e2 - e0)))

/-! ## Sign, arithmetic -/

def neg : F64 → F64
  | finite n m e => finite (!n) m e
  | inf n => inf (!n)
  | nan => nan

def abs : F64 → F64
  | finite _ m e => finite false m e
  | inf _ => inf false
  | nan => nan

def add : F64 → F64 → F64
  | nan, _ => nan
  | _, nan => nan
  | inf n1, inf n2 => if n1 = n2 then inf n1 else nan
  | inf n, finite .. => inf n
  | finite .., inf n => inf n
  | finite n1 m1 e1, finite n2 m2 e2 =>
    let e0 := min e1 e2
    let s := signed n1 (m1 * 2 ^ (e1 - e0)) + signed n2 (m2 * 2 ^ (e2 - e0))
    -- an exact zero sum is +0 unless both operands carry a minus sign (IEEE, round-to-nearest)
    if s = 0 then finite (n1 && n2) 0 0
    else ofScaled (decide (s < 0)) (s.natAbs * 2 ^ e0) 1

def sub (x y : F64) : F64 := add x (neg y)

def mul : F64 → F64 → F64
  | nan, _ => nan
  | _, nan => nan
  | inf n1, inf n2 => inf (n1 != n2)
  | inf n1, finite n2 m2 _ => if m2 = 0 then nan else inf (n1 != n2)
  | finite n1 m1 _, inf n2 => if m1 = 0 then nan else inf (n1 != n2)
  | finite n1 m1 e1, finite n2 m2 e2 =>
    ofScaled (n1 != n2) (m1 * m2 * 2 ^ (e1 + e2)) one

/-- Python `x / y`: `none` is `ZeroDivisionError` (raised for every `x`, including nan, when `y == 0`) -/
def div : F64 → F64 → Option F64
  | x, finite n2 m2 e2 =>
    if m2 = 0 then none else
    match x with
    | nan => some nan
    | inf n1 => some (inf (n1 != n2))
    | finite n1 m1 e1 => some (ofScaled (n1 != n2) (m1 * 2 ^ e1 * one) (m2 * 2 ^ e2))
  | nan, _ => some nan
  | _, nan => some nan
  | inf _, inf _ => some nan
  | finite n1 _ _, inf n2 => some (finite (n1 != n2) 0 0)

/-! ## Comparisons (Python `<`, `<=`, `==` on floats; anything involving nan is false) -/

def le : F64 → F64 → Bool
  | nan, _ => false
  | _, nan => false
  | inf n1, inf n2 => n1 || !n2
  | inf n, finite .. => n
  | finite .., inf n => !n
  | finite n1 m1 e1, finite n2 m2 e2 =>
    let (a, b) := aligned n1 m1 e1 n2 m2 e2
    a ≤ b

def lt : F64 → F64 → Bool
  | nan, _ => false
  | _, nan => false
  | inf n1, inf n2 => n1 && !n2
  | inf n, finite .. => n
  | finite .., inf n => !n
  | finite n1 m1 e1, finite n2 m2 e2 =>
    let (a, b) := aligned n1 m1 e1 n2 m2 e2
    a < b

/-- numeric equality `x == y` (so `-0.0 == 0.0`, `nan != nan`) -/
def eq : F64 → F64 → Bool
  | nan, _ => false
  | _, nan => false
  | inf n1, inf n2 => n1 = n2
  | inf _, finite .. => false
  | finite .., inf _ => false
  | finite n1 m1 e1, finite n2 m2 e2 =>
    let (a, b) := aligned n1 m1 e1 n2 m2 e2
    a = b

def gt (x y : F64) : Bool := lt y x
def ge (x y : F64) : Bool := le y x
def ne (x y : F64) : Bool := !eq x y

/-- Python `max(a, b)`: the first maximal element (`b` only if `b > a`) -/
def pyMax (a b : F64) : F64 := if lt a b then b else a
/-- Python `min(a, b)`: the first minimal element (`b` only if `b < a`) -/
def pyMin (a b : F64) : F64 := if lt b a then b else a

/-- Exact three-way comparison of a float with a Python int (no conversion rounding);
`none` when `x` is nan (every comparison is then false). -/
def cmpInt : F64 → Int → Option Ordering
  | nan, _ => none
  | inf n, _ => some (if n then .lt else .gt)
  | finite n m e, i => some (compare (signed n (m * 2 ^ e)) (i * (one : Int)))

def ltInt (x : F64) (i : Int) : Bool := cmpInt x i == some .lt
def leInt (x : F64) (i : Int) : Bool := cmpInt x i == some .lt || cmpInt x i == some .eq
def eqInt (x : F64) (i : Int) : Bool := cmpInt x i == some .eq
def gtInt (x : F64) (i : Int) : Bool := cmpInt x i == some .gt
def geInt (x : F64) (i : Int) : Bool := cmpInt x i == some .gt || cmpInt x i == some .eq

/-! ## Conversions -/

/-- `float(i)` with overflow to ±inf (this is C's `(double)long` for ints that fit a `long`) -/
def ofIntD (i : Int) : F64 := ofScaled (decide (i < 0)) (i.natAbs * one) 1

/-- Python `float(i)`: correctly rounded (half-even); `none` is `OverflowError`. -/
def ofInt (i : Int) : Option F64 :=
  if (ofIntD i).isInf then none else some (ofIntD i)

/-- Correctly rounded value of `±mant·10^exp10` (numeric core of `float("…")`): overflow gives
`±inf`, underflow `±0`/subnormal; the sign flag survives on zero. -/
def ofDecimal (neg : Bool) (mant : Nat) (exp10 : Int) : F64 :=
  if mant = 0 then finite neg 0 0
  -- mant ≥ 1 and exp10 ≥ 310: at least 1e310 > max double
  else if exp10 ≥ 310 then inf neg
  -- mant < 2^(log2 mant + 1) ≤ 10^(log2 mant + 1), so the value is below 1e-400: rounds to zero
  else if exp10 < -(400 + (mant.log2 : Int) + 1) then finite neg 0 0
  else if exp10 ≥ 0 then ofScaled neg (mant * 10 ^ exp10.toNat * one) 1
  else ofScaled neg (mant * one) (10 ^ (-exp10).toNat)

/-- Python `round(x, n)` for `n ≥ 0`: exact decimal round-half-even of the exact binary value to
`n` places, then the nearest double.  inf/nan round to themselves; so does everything for `n > 323`
(CPython's `NDIGITS_MAX`). -/
def roundN (x : F64) (n : Nat) : F64 :=
  match x with
  | finite neg m e =>
    if n > 323 then x else
    let k := rneDiv (m * 2 ^ e * 10 ^ n) one     -- integer number of 10^-n units
    ofScaled neg (k * one) (10 ^ n)
  | _ => x

/-- Python `round(x)`: nearest integer, ties to even; `none` for inf (OverflowError) / nan (ValueError) -/
def roundInt : F64 → Option Int
  | finite neg m e => some (signed neg (rneDiv (m * 2 ^ e) one))
  | _ => none

/-- `math.floor(x)`; `none` for inf (OverflowError) / nan (ValueError) -/
def floor : F64 → Option Int
  | finite neg m e =>
    let M := m * 2 ^ e
    some (if neg then -(((M + (one - 1)) / one : Nat) : Int) else ((M / one : Nat) : Int))
  | _ => none

/-- `math.ceil(x)`; `none` for inf (OverflowError) / nan (ValueError) -/
def ceil : F64 → Option Int
  | finite neg m e =>
    let M := m * 2 ^ e
    some (if neg then -((M / one : Nat) : Int) else (((M + (one - 1)) / one : Nat) : Int))
  | _ => none

/-- `int(x)` / `math.trunc(x)`; `none` for inf (OverflowError) / nan (ValueError) -/
def trunc : F64 → Option Int
  | finite neg m e => some (signed neg (m * 2 ^ e / one))
  | _ => none

/-! ## Formatting -/

/-- the ASCII digit of `d < 10` -/
def digitChar (d : Nat) : Char := Char.ofNat (48 + d)

/-- digits of `n` pushed in front of `acc` (structural on the fuel; `n + 1` is always enough) -/
def natDecAux : Nat → Nat → List Char → List Char
  | 0, _, acc => acc
  | fuel + 1, n, acc =>
    if n < 10 then digitChar n :: acc else natDecAux fuel (n / 10) (digitChar (n % 10) :: acc)

/-- decimal digits of a natural number, most significant first (`"0"` for 0); equal to
`PyStr.natDec` (`Proofs/C14Decimal.lean`) -/
def natDecT (n : Nat) : List Char := natDecAux (n + 1) n []

/-- the `n` low decimal digits of `k`, most significant first, zero padded -/
def fracDigits : Nat → Nat → List Char
  | 0, _ => []
  | n + 1, k => fracDigits n (k / 10) ++ [digitChar (k % 10)]

/-- `f'{x:.{n}f}'` (also `'%.{n}f' % x`) as a list of characters -/
def fmtFixedT (x : F64) (n : Nat) : List Char :=
  match x with
  | nan => ['n', 'a', 'n']
  | inf neg => if neg then ['-', 'i', 'n', 'f'] else ['i', 'n', 'f']
  | finite neg m e =>
    let k := rneDiv (m * 2 ^ e * 10 ^ n) one
    let s := natDecT (k / 10 ^ n)
    let s := if n = 0 then s else s ++ '.' :: fracDigits n (k % 10 ^ n)
    if neg then '-' :: s else s

/-- `f'{x:.{n}f}'` (also `'%.{n}f' % x`) -/
def fmtFixed (x : F64) (n : Nat) : String := String.ofList (fmtFixedT x n)

/-! ## `sum()` (CPython 3.12 float fast path: Neumaier compensated summation) -/

/-- one step of the compensated loop: returns the new `(f_result, c)` -/
def sumStep (f c x : F64) : F64 × F64 :=
  let t := add f x
  let c' := if ge (abs f) (abs x) then add c (add (sub f t) x) else add c (add (sub x t) f)
  (t, c')

/-- end of the loop: `if (c && Py_IS_FINITE(c)) f_result += c;` -/
def sumFinish (f c : F64) : F64 :=
  if !c.isZero && c.isFinite then add f c else f

def sumLoop (f c : F64) : List F64 → F64
  | [] => sumFinish f c
  | x :: xs => sumLoop (sumStep f c x).1 (sumStep f c x).2 xs

/-- `sum(xs, start)` for a float `start` and exact floats `xs` -/
def pySumFrom (start : F64) (xs : List F64) : F64 := sumLoop start zero xs

/-- `sum(xs)` for a non-empty list of floats: the int `0` start is first added to `xs[0]`
(generic `0 + x`, which turns `-0.0` into `0.0`), then the float loop runs.
(`sum([])` is the int `0`; the caller handles that and any int prefix.) -/
def pySum : List F64 → F64
  | [] => zero
  | x :: xs => pySumFrom (add zero x) xs

/-- fits in a C `long` (64 bit) -/
def fitsLong (i : Int) : Bool := -(2 ^ 63 : Int) ≤ i && i < (2 ^ 63 : Int)

/-- after the fast path has been abandoned: plain left-to-right `+` with int→float conversion;
`none` is OverflowError (int too large to convert to float) -/
def sumGeneric (f : F64) : List (Sum Int F64) → Option F64
  | [] => some f
  | .inr x :: xs => sumGeneric (add f x) xs
  | .inl i :: xs => (ofInt i).bind fun x => sumGeneric (add f x) xs

/-- the float loop with ints mixed in: ints that fit a C long are added uncompensated
(`f_result += (double)value`); a bigger int ends the fast path (the compensation is folded in
first) and the rest is summed by `sumGeneric`. -/
def sumMixedLoop (f c : F64) : List (Sum Int F64) → Option F64
  | [] => some (sumFinish f c)
  | .inr x :: xs => sumMixedLoop (sumStep f c x).1 (sumStep f c x).2 xs
  | .inl i :: xs =>
    if fitsLong i then sumMixedLoop (add f (ofIntD i)) c xs
    else sumGeneric (sumFinish f c) (.inl i :: xs)

/-- `sum(items, start)` for a float `start` where `items` are floats and ints -/
def pySumMixed (start : F64) (xs : List (Sum Int F64)) : Option F64 := sumMixedLoop start zero xs

/-! ## Cents (used by `Proofs/F64Cents.lean`: money lines are `round(x, 2)` values) -/

/-- the double nearest (ties to even) to `c/100`: literally `float(f"{c}e-2")` (and also `c / 100`,
Python's correctly rounded int/int true division) -/
def centD (c : Int) : F64 := ofDecimal (decide (c < 0)) c.natAbs (-2)

/-- **`x` is the double for `c` cents**: canonical, finite and numerically equal to the correctly
rounded value of `c/100` (so both `0.0` and `-0.0` are `Cent _ 0`; for `c ≠ 0` it means
`x = centD c`). -/
def Cent (x : F64) (c : Int) : Prop := WF x ∧ x.isFinite = true ∧ eq x (centD c) = true

instance (x : F64) (c : Int) : Decidable (Cent x c) := by unfold Cent; infer_instance

/-- `round(100·v)` (half-even) for an exact value `v` in scaled units -/
def cents100I (v : Int) : Int := signed (decide (v < 0)) (rneDiv (v.natAbs * 100) one)

/-- the integer `round(100·x)` computed exactly (no float multiplication); 0 for inf/nan -/
def cents100 (x : F64) : Int := cents100I (sval x)

/-- the number of cents of a cent-valued double, `none` if `x` is not cent-valued -/
def centsOf (x : F64) : Option Int := if Cent x (cents100 x) then some (cents100 x) else none


end F64
end HabuVerif
