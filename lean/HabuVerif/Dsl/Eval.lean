import HabuVerif.Core.Tree
import HabuVerif.Dsl.Syntax
/-!
# Total evaluator of the line-definition DSL into strategy trees

`evalLine` turns a translated line definition into the interaction tree the solver model runs:
`v[name]` is a `readV` node, `i[name]` a `readI` node, `Field.form(name)` a `needForm` node,
`self.not_implemented()` is `notImpl`, a Python exception raised by the body is `err code`
(`PyErr.code`), and the result passes through the typed-field wrapper of `habutax.fields`
(`FieldKind.wrap`, applied with `Tree.mapOut`).

The evaluator is structurally recursive on the syntax (no `partial`, no fuel): loops run over the
finite list of items their iterable evaluated to, through the higher-order helpers `forLoop`,
`collectM`, `sumGenM`, which take the (structurally smaller) loop body as a function.  Core only.
-/
set_option autoImplicit false

namespace HabuVerif.Dsl
open HabuVerif

/-- interaction trees with an arbitrary result type (`Tree` has the value type as its result) -/
inductive Prog (α : Type) where
  | pure (a : α)
  | notImpl
  | err (e : PyErr)
  | readV (n : String) (k : Val → Prog α)
  | readI (x : String) (k : Val → Prog α)
  | needForm (f : String) (k : Prog α)

namespace Prog
variable {α β : Type}

def bind : Prog α → (α → Prog β) → Prog β
  | .pure a, g => g a
  | .notImpl, _ => .notImpl
  | .err e, _ => .err e
  | .readV n k, g => .readV n fun v => (k v).bind g
  | .readI x k, g => .readI x fun v => (k v).bind g
  | .needForm f k, g => .needForm f (k.bind g)

instance : Monad Prog where
  pure := Prog.pure
  bind := Prog.bind

/-- lift a pure Python operation: an exception ends the line -/
def lift : R α → Prog α
  | .ok a => .pure a
  | .error e => .err e

def toTree : Prog Val → Tree String String String Val
  | .pure v => .ret v
  | .notImpl => .notImpl
  | .err e => .err e.code
  | .readV n k => .readV n fun v => (k v).toTree
  | .readI x k => .readI x fun v => (k v).toTree
  | .needForm f k => .needForm f k.toTree

end Prog

/-! ## Environments, context -/

abbrev Env := List (String × Val)

def Env.get (env : Env) (x : String) : R Val :=
  match env.lookup x with
  | some v => .ok v
  | none => .error .nameError

def Env.set (env : Env) (x : String) (v : Val) : Env :=
  if (env.lookup x).isSome then env.map fun p => if p.1 == x then (x, v) else p
  else (x, v) :: env

/-- what a line can see besides the two stores -/
structure Ctx where
  year : YearDecl
  /-- class name of the line's own form -/
  form : String
  inst : Option String
  /-- thresholds of the line's own form class -/
  thresholds : List (String × Thresh)

/-- `Form.name()` -/
def formName (form : String) (inst : Option String) : String :=
  match inst with
  | none => form
  | some i => form ++ ":" ++ i

/-- `FormAccessor.__getitem__`: a key without a dot is relative to the own form (incl. instance) -/
def qualify (ctx : Ctx) (key : Val) : R String :=
  match key with
  | .str k => .ok (if k.toList.contains '.' then k else formName ctx.form ctx.inst ++ "." ++ k)
  | .list _ => .error .unsupported
  | .dict _ _ => .error .unsupported
  | .tuple _ => .error .unsupported
  | _ => .error .typeError     -- `"." not in key` on a non-container

/-- class part of `class[:instance]` -/
def classOf (f : String) : String :=
  String.ofList (f.toList.takeWhile (· != ':'))

/-- `Form.threshold(name, requested_key)` -/
def lookupThreshold (ths : List (String × Thresh)) (name : Val) (key : Option Val) : R Val :=
  match name with
  | .list _ => .error .typeError           -- unhashable
  | .dict _ _ => .error .typeError
  | .str n =>
    (match ths.lookup n with
     | none => .error .assertionError
     | some (.scalar v) =>
       (match key with
        | none => .ok v
        | some .none => .ok v                -- `requested_key=None` is the default
        | some _ => .error .assertionError)
     | some (.table rows) =>
       match key with
       | none => .error .assertionError
       | some .none => .error .assertionError
       | some k => scan k rows)
  | _ => .error .assertionError
where
  scan (k : Val) : List (ThreshKey × Val) → R Val
    | [] => .error .assertionError
    | (.one key, v) :: rest =>
      if Val.isInstanceOfTypeOf key k then
        (if Val.pyEq key k then .ok v else scan k rest)
      else
        -- `requested_key in key`
        (match Val.contains k key with
         | .ok true => .ok v
         | .ok false => scan k rest
         | .error e => .error e)
    | (.many keys, v) :: rest =>
      if Val.isInstanceOfTypeOf (.tuple keys) k then
        (if Val.pyEq (.tuple keys) k then .ok v else scan k rest)
      else if keys.any (Val.pyEq k) then .ok v else scan k rest

/-- the text of an f-string: `format(x, '')` of every part, concatenated -/
def fmtAll : List Val → R String
  | [] => .ok ""
  | v :: vs => do
    let s ← Val.pyStr v
    let rest ← fmtAll vs
    pure (s ++ rest)

def applyBin (op : BinOp) (a b : Val) : R Val :=
  match op with
  | .add => Val.add a b
  | .sub => Val.sub a b
  | .mul => Val.mul a b
  | .div => Val.div a b

def applyCmp (op : CmpOp) (a b : Val) : R Bool :=
  match op with
  | .eq => .ok (Val.pyEq a b)
  | .ne => .ok (!Val.pyEq a b)
  | .lt => Val.ordCmp .lt a b
  | .le => Val.ordCmp .le a b
  | .gt => Val.ordCmp .gt a b
  | .ge => Val.ordCmp .ge a b
  | .in_ => Val.contains a b
  | .notIn => (Val.contains a b).map (!·)
  | .is_ => Val.pyIs a b
  | .isNot => (Val.pyIs a b).map (!·)

def applyBuiltin (f : Builtin) (args : List Val) : R Val :=
  match f, args with
  | .sum, [it] => Val.pySum it (.int 0)
  | .sum, [it, start] => Val.pySum it start
  | .min, xs => Val.pyMinMax false xs
  | .max, xs => Val.pyMinMax true xs
  | .float, [] => .ok (.float F64.zero)
  | .float, [x] => Val.pyFloat x
  | .str, [] => .ok (.str "")
  | .str, [x] => (Val.pyStr x).map .str
  | .len, [x] => Val.pyLen x
  | .round, xs => Val.pyRound xs
  | .ceil, [x] => Val.pyCeil x
  | .list, [] => .ok (.list [])
  | .list, [x] => Val.pyList x
  | .range, xs => Val.pyRange xs
  | _, _ => .error .typeError

/-- `obj.m(args)` once `obj` is known to be a `str` -/
def applyMethod (m : Method) (s : String) (args : List Val) : R Val :=
  match m, args with
  | .upper, [] => (Val.pyUpper s).map .str
  | .lower, [] => (Val.pyLower s).map .str
  | .strip, [] => .ok (.str (Val.pyStrip s))
  | .strip, [.none] => .ok (.str (Val.pyStrip s))
  | .strip, [.str cs] => .ok (.str (Val.pyStripSet s cs))
  | .strip, [_] => .error .typeError
  | .split, [] => .ok (.list ((Val.splitWs [] s.toList).map fun cs => .str (String.ofList cs)))
  | .split, [.none] => .ok (.list ((Val.splitWs [] s.toList).map fun cs => .str (String.ofList cs)))
  | .split, [.str sep] =>
    if sep.isEmpty then .error .valueError
    else .ok (.list ((Val.splitOnChars sep.toList s.toList.length [] s.toList).map
      fun cs => .str (String.ofList cs)))
  | .split, [_] => .error .typeError
  | .join, [it] => Val.pyJoin (.str s) it
  | _, _ => .error .typeError

/-- bind loop / comprehension targets to an item -/
def bindTargets (xs : List String) (item : Val) (env : Env) : R Env :=
  match xs with
  | [x] => .ok (env.set x item)
  | _ => do
    let parts ← Val.iterItems item
    if parts.length != xs.length then throw .valueError
    pure ((xs.zip parts).foldl (fun e p => e.set p.1 p.2) env)

/-- result of executing a statement -/
inductive Flow where
  | next (env : Env)
  | cont (env : Env)
  | brk (env : Env)
  | ret (v : Val)

/-- `for`: run `step` on each item; `continue` goes on, `break` and `return` leave -/
def forLoop (step : Env → Val → Prog Flow) : Env → List Val → Prog Flow
  | env, [] => .pure (.next env)
  | env, x :: xs =>
    (step env x).bind fun r =>
      match r with
      | .next env' => forLoop step env' xs
      | .cont env' => forLoop step env' xs
      | .brk env' => .pure (.next env')
      | .ret v => .pure (.ret v)

/-- list comprehension: `step` yields the element, or nothing when a filter rejects the item -/
def collectM (step : Val → Prog (Option Val)) : List Val → Prog (List Val)
  | [] => .pure []
  | x :: xs =>
    (step x).bind fun r =>
      (collectM step xs).bind fun rest =>
        .pure (match r with
          | some v => v :: rest
          | none => rest)

/-- `sum(<generator>)`: produce an element, add it, produce the next … -/
def sumGenM (step : Val → Prog (Option Val)) : Val.SumSt → List Val → Prog Val
  | st, [] => .pure (Val.sumFinish st)
  | st, x :: xs =>
    (step x).bind fun r =>
      match r with
      | none => sumGenM step st xs
      | some v =>
        match Val.sumStep st v with
        | .ok st' => sumGenM step st' xs
        | .error e => .err e

def Flow.result : Flow → Prog Val
  | .ret v => .pure v
  | .next _ => .pure .none        -- fell off the end of the function
  | .cont _ => .err .internal
  | .brk _ => .err .internal

mutual
  def evalExpr (ctx : Ctx) (env : Env) : Expr → Prog Val
    | .const v => .pure v
    | .var x => Prog.lift (env.get x)
    | .readI e =>
      (evalExpr ctx env e).bind fun k =>
        (Prog.lift (qualify ctx k)).bind fun n => .readI n .pure
    | .readV e =>
      (evalExpr ctx env e).bind fun k =>
        (Prog.lift (qualify ctx k)).bind fun n => .readV n .pure
    | .fstr parts =>
      (evalArgs ctx env parts).bind fun vs =>
        (Prog.lift (fmtAll vs)).bind fun s => .pure (.str s)
    | .bin op a b =>
      (evalExpr ctx env a).bind fun x =>
        (evalExpr ctx env b).bind fun y => Prog.lift (applyBin op x y)
    | .neg a => (evalExpr ctx env a).bind fun x => Prog.lift (Val.neg x)
    | .pos a => (evalExpr ctx env a).bind fun x => Prog.lift (Val.pos x)
    | .not a => (evalExpr ctx env a).bind fun x => .pure (.bool (!x.truthy))
    | .and a b => (evalExpr ctx env a).bind fun x => if x.truthy then evalExpr ctx env b else .pure x
    | .or a b => (evalExpr ctx env a).bind fun x => if x.truthy then .pure x else evalExpr ctx env b
    | .cmp first ops rest => (evalExpr ctx env first).bind fun x => evalCmp ctx env x ops rest
    | .ite c a b =>
      (evalExpr ctx env c).bind fun x => if x.truthy then evalExpr ctx env a else evalExpr ctx env b
    | .call f args => (evalArgs ctx env args).bind fun vs => Prog.lift (applyBuiltin f vs)
    | .method m obj args =>
      (evalExpr ctx env obj).bind fun o =>
        match o with
        | .str s => (evalArgs ctx env args).bind fun vs => Prog.lift (applyMethod m s vs)
        | _ => .err .attributeError
    | .attr obj name =>
      (evalExpr ctx env obj).bind fun o =>
        match o with
        | .enumv e _ =>
          (match ctx.year.enums.lookup e with
           | some ms => if ms.contains name then .pure (.enumv e name) else .err .attributeError
           | none => .err .internal)
        | _ => .err .attributeError
    | .attrFail obj => (evalExpr ctx env obj).bind fun _ => .err .attributeError
    | .raise e => .err e
    | .threshold name hasKey key =>
      (evalExpr ctx env name).bind fun n =>
        if hasKey then
          (evalExpr ctx env key).bind fun k => Prog.lift (lookupThreshold ctx.thresholds n (some k))
        else Prog.lift (lookupThreshold ctx.thresholds n none)
    | .thresholdOf form name hasKey key =>
      (evalExpr ctx env form).bind fun f =>
        match f with
        | .str fname =>
          .needForm fname <|
            -- the solver's form map: of two classes with the same name the later one wins
            match ctx.year.classes.reverse.find? (fun c => c.name == classOf fname) with
            | none => .err .internal
            | some c =>
              (evalExpr ctx env name).bind fun n =>
                if hasKey then
                  (evalExpr ctx env key).bind fun k => Prog.lift (lookupThreshold c.thresholds n (some k))
                else Prog.lift (lookupThreshold c.thresholds n none)
        | .list _ => .err .typeError
        | .dict _ _ => .err .typeError
        | _ => .err .keyError
    | .loadedForm form =>
      (evalExpr ctx env form).bind fun f =>
        match f with
        | .str fname => .needForm fname (.pure .none)
        | .list _ => .err .typeError
        | .dict _ _ => .err .typeError
        | _ => .err .keyError
    | .instance =>
      .pure (match ctx.inst with
        | some i => .str i
        | none => .none)
    | .notImpl args => (evalArgs ctx env args).bind fun _ => .notImpl
    | .tuple xs => (evalArgs ctx env xs).bind fun vs => .pure (.tuple vs)
    | .list xs => (evalArgs ctx env xs).bind fun vs => .pure (.list vs)
    | .dict ks vs => (evalArgs ctx env vs).bind fun xs => .pure (.dict ks xs)
    | .index e idx =>
      (evalExpr ctx env e).bind fun a =>
        (evalExpr ctx env idx).bind fun b => Prog.lift (Val.getItem a b)
    | .slice e lo hi =>
      (evalExpr ctx env e).bind fun a =>
        (evalExpr ctx env lo).bind fun l =>
          (evalExpr ctx env hi).bind fun h => Prog.lift (Val.getSlice a l h)
    | .listComp elt xs iter conds =>
      (evalExpr ctx env iter).bind fun itv =>
        (Prog.lift (Val.iterItems itv)).bind fun items =>
          (collectM (fun item =>
            (Prog.lift (bindTargets xs item env)).bind fun env' =>
              (evalConds ctx env' conds).bind fun ok =>
                if ok then (evalExpr ctx env' elt).bind fun v => .pure (some v) else .pure none)
            items).bind fun vs => .pure (.list vs)
    | .sumGen elt xs iter conds =>
      (evalExpr ctx env iter).bind fun itv =>
        (Prog.lift (Val.iterItems itv)).bind fun items =>
          sumGenM (fun item =>
            (Prog.lift (bindTargets xs item env)).bind fun env' =>
              (evalConds ctx env' conds).bind fun ok =>
                if ok then (evalExpr ctx env' elt).bind fun v => .pure (some v) else .pure none)
            (Val.sumInit (.int 0)) items
    | .callHelper params args defaults body =>
      (evalArgs ctx env args).bind fun vs =>
        if vs.length != params.length then .err .typeError
        else
          (execBlock ctx ((params.zip vs).foldl (fun e p => e.set p.1 p.2) defaults) body).bind
            Flow.result
    | .global name =>
      (match ctx.year.globals.lookup name with
       | some v => .pure v
       | none => .err .internal)
    | .unsupported _ => .err .unsupported

  def evalArgs (ctx : Ctx) (env : Env) : List Expr → Prog (List Val)
    | [] => .pure []
    | e :: es =>
      (evalExpr ctx env e).bind fun v =>
        (evalArgs ctx env es).bind fun vs => .pure (v :: vs)

  /-- the tail of a comparison chain, `left` being the value of the previous operand -/
  def evalCmp (ctx : Ctx) (env : Env) (left : Val) : List CmpOp → List Expr → Prog Val
    | op :: ops, e :: es =>
      (evalExpr ctx env e).bind fun right =>
        (Prog.lift (applyCmp op left right)).bind fun b =>
          if b then
            (match ops with
             | [] => .pure (.bool true)
             | _ :: _ => evalCmp ctx env right ops es)
          else .pure (.bool false)
    | [], [] => .pure (.bool true)
    | _, _ => .err .internal

  /-- comprehension filters: all must hold, left to right -/
  def evalConds (ctx : Ctx) (env : Env) : List Expr → Prog Bool
    | [] => .pure true
    | c :: cs =>
      (evalExpr ctx env c).bind fun v => if v.truthy then evalConds ctx env cs else .pure false

  def execStmt (ctx : Ctx) (env : Env) : Stmt → Prog Flow
    | .assign x e => (evalExpr ctx env e).bind fun v => .pure (.next (env.set x v))
    | .unpack xs e =>
      (evalExpr ctx env e).bind fun v =>
        (Prog.lift (bindTargets xs v env)).bind fun env' => .pure (.next env')
    | .aug x op e =>
      (Prog.lift (env.get x)).bind fun old =>
        (evalExpr ctx env e).bind fun v =>
          match old, op with
          | .list xs, .add =>
            -- `list.__iadd__` extends with any iterable
            (Prog.lift (Val.iterItems v)).bind fun ys => .pure (.next (env.set x (.list (xs ++ ys))))
          | _, _ => (Prog.lift (applyBin op old v)).bind fun r => .pure (.next (env.set x r))
    | .ifS c thn els =>
      (evalExpr ctx env c).bind fun v =>
        if v.truthy then execBlock ctx env thn else execBlock ctx env els
    | .forS xs iter body =>
      (evalExpr ctx env iter).bind fun itv =>
        (Prog.lift (Val.iterItems itv)).bind fun items =>
          forLoop (fun env1 item =>
            (Prog.lift (bindTargets xs item env1)).bind fun env2 => execBlock ctx env2 body)
            env items
    | .ret e => (evalExpr ctx env e).bind fun v => .pure (.ret v)
    | .expr e => (evalExpr ctx env e).bind fun _ => .pure (.next env)
    | .append x e =>
      (Prog.lift (env.get x)).bind fun old =>
        match old with
        | .list xs => (evalExpr ctx env e).bind fun v => .pure (.next (env.set x (.list (xs ++ [v]))))
        | _ => .err .attributeError
    | .assertS c msg =>
      (evalExpr ctx env c).bind fun v =>
        if v.truthy then .pure (.next env)
        else (evalExpr ctx env msg).bind fun _ => .err .assertionError
    | .continueS => .pure (.cont env)
    | .breakS => .pure (.brk env)
    | .pass => .pure (.next env)

  def execBlock (ctx : Ctx) (env : Env) : List Stmt → Prog Flow
    | [] => .pure (.next env)
    | s :: ss =>
      (execStmt ctx env s).bind fun r =>
        match r with
        | .next env' => execBlock ctx env' ss
        | other => .pure other
end

/-! ## The typed-field wrapper (`TypedField.value`, `FloatField.value`) -/

def FieldKind.empty : FieldKind → Val
  | .str => .str ""
  | .bool => .bool false
  | .int => .int 0
  | .float _ => .float F64.zero
  | .enum _ => .none

/-- `None` / blank string → the type's empty value; then the exact type check (`bool` is not an
`int`, an `int` is not a `float`, another enum's member is not a member); a `FloatField` then rounds.
`Sum.inr code` is the `TypeError`. -/
def FieldKind.wrap (k : FieldKind) (v : Val) : Sum Val Nat :=
  let blank : Bool := match v with
    | .none => true
    | .str s => (Val.pyStrip s).isEmpty
    | _ => false
  let v1 : Option Val :=
    if blank then some k.empty
    else match k, v with
      | .str, .str s => some (.str s)
      | .bool, .bool b => some (.bool b)
      | .int, .int i => some (.int i)
      | .float _, .float x => some (.float x)
      | .enum e, .enumv e' m => if e == e' then some (.enumv e' m) else none
      | _, _ => none
  match v1 with
  | none => .inr PyErr.typeError.code
  | some w =>
    match k, w with
    | .float places, .float x => .inl (.float (F64.roundN x places))
    | _, _ => .inl w

/-- body of a line function, before the field wrapper -/
def evalBody (ctx : Ctx) (d : LineDecl) : Prog Val :=
  (execBlock ctx d.defaults d.body).bind Flow.result

/-- the strategy tree of line `d` of class `c` for form instance `inst` -/
def evalLine (year : YearDecl) (c : ClassDecl) (inst : Option String) (d : LineDecl) :
    Tree String String String Val :=
  (evalBody { year := year, form := c.name, inst := inst, thresholds := c.thresholds } d).toTree.mapOut
    (FieldKind.wrap d.kind)

end HabuVerif.Dsl
