import HabuVerif.Core.Solver
import HabuVerif.Dsl.Eval
/-!
# The shipped forms as a solver catalogue

`mkCat year` packages a translated `YearDecl` as a `Cat String String String Val String`, the
interface of the solver model (`Core/Solver.lean`) and of the metatheory (`Props/C01`, `C03`: they
hold for EVERY `Cat`, hence for this one).  Names are `class[:instance].line`; the instance is a
run-time parameter of every function.

Input parsing (`Cat.parse`) is given here by a MINIMAL, ASCII-exact model of `habutax.inputs`
(`parseInput`): non-ASCII text is accepted for `StringInput` and rejected (answer `none`, i.e.
"invalid") for the numeric/boolean kinds, which is exact except for non-ASCII Unicode digits in
`int()`/`float()`.  The exact, table-driven model for all of Unicode is `Core/Inputs.lean` (another
component); the correspondence streams of this component only send ASCII input text.  Core only.
-/
set_option autoImplicit false

namespace HabuVerif.Dsl
open HabuVerif

/-! ## Regular expressions (for `RegexInput.valid`) -/

def Re.hasUnsupported : Re → Bool
  | .unsupported => true
  | .seq a b => a.hasUnsupported || b.hasUnsupported
  | .alt a b => a.hasUnsupported || b.hasUnsupported
  | .rep a _ _ => a.hasUnsupported
  | _ => false

def inRanges (rs : List (Nat × Nat)) (c : Char) : Bool :=
  rs.any fun r => r.1 ≤ c.toNat && c.toNat ≤ r.2

/-- apply `f` between `lo` and `lo + extra` times (greedy order: more repetitions first);
positions are pairs (at start?, remaining text) -/
def repRems (f : Bool × List Char → List (Bool × List Char)) :
    Nat → Nat → Bool × List Char → List (Bool × List Char)
  | 0, 0, s => [s]
  | 0, extra + 1, s => ((f s).filter (fun s' => s'.2.length < s.2.length)).flatMap (repRems f 0 extra) ++ [s]
  | lo + 1, extra, s => (f s).flatMap (repRems f lo extra)

/-- all ways `r` can match a prefix: the remaining texts (with "still at the very start" flag) -/
def Re.rems : Re → Bool × List Char → List (Bool × List Char)
  | .eps, s => [s]
  | .cls rs negated, (_, c :: cs) => if inRanges rs c != negated then [(false, cs)] else []
  | .cls _ _, (_, []) => []
  | .seq a b, s => (a.rems s).flatMap b.rems
  | .alt a b, s => a.rems s ++ b.rems s
  | .rep a lo hi, s =>
    -- an unbounded repetition never needs more iterations than there are characters left
    let extra := match hi with
      | some h => h - lo
      | none => s.2.length
    repRems a.rems lo extra s
  | .bol, s => if s.1 then [s] else []
  | .eol, s => if s.2.isEmpty || s.2 == ['\n'] then [s] else []
  | .unsupported, _ => []

/-- `bool(re.match(r, text))` -/
def Re.matches (r : Re) (text : String) : Bool := !(r.rems (true, text.toList)).isEmpty

/-! ## `Input.valid` / `Input.value` -/

def boolWordsTrue : List String := ["true", "yes", "y", "1", "on"]
def boolWordsFalse : List String := ["false", "no", "n", "0", "off"]

/-- `some v` iff `valid(text)`, and then `v = value(text)` (what `InputStore.__getitem__` returns) -/
def parseInput (year : YearDecl) (k : InputKind) (text : String) : Option Val :=
  let s := Val.pyStrip text
  match k with
  | .str => some (.str s)
  | .bool =>
    (match Val.pyLower s with
     | .ok l =>
       if boolWordsTrue.contains l then some (.bool true)
       else if boolWordsFalse.contains l then some (.bool false) else none
     | .error _ => none)
  | .int =>
    if s.isEmpty then some (.int 0) else
    (match Val.parseIntStr s with
     | .ok i => some (.int i)
     | .error _ => none)
  | .float =>
    if s.isEmpty then some (.float F64.zero) else
    (match Val.parseFloatStr s with
     | .ok x => if x.isFinite then some (.float x) else none
     | .error _ => none)
  | .ssn =>
    let d := s.toList.filter (· != '-')
    if d.length == 9 && d.all (fun c => '0' ≤ c ∧ c ≤ '9') then some (.str (String.ofList d)) else none
  | .enum e allowEmpty =>
    if s.isEmpty && allowEmpty then some .none
    else
      (match year.enums.lookup e with
       | some ms => if ms.contains s then some (.enumv e s) else none
       | none => none)
  | .regex r => if r.matches s then some (.str s) else none

/-! ## Names -/

def splitOnChar (c : Char) (s : String) : List String :=
  (go [] s.toList).map String.ofList
where
  go (acc : List Char) : List Char → List (List Char)
    | [] => [acc.reverse]
    | d :: ds => if d == c then acc.reverse :: go [] ds else go (d :: acc) ds

/-- `form, key = name.split('.')` -/
def splitName (n : String) : Option (String × String) :=
  match splitOnChar '.' n with
  | [f, k] => some (f, k)
  | _ => none

/-- `form.name_and_instance` (`none`: more than one colon) -/
def nameAndInstance (f : String) : Option (String × Option String) :=
  match splitOnChar ':' f with
  | [c] => some (c, none)
  | [c, i] => some (c, some i)
  | _ => none

def YearDecl.findClass (y : YearDecl) (cname : String) : Option ClassDecl :=
  y.classes.find? fun c => c.name == cname

def InstRule.accepts : InstRule → Option String → Bool
  | .any, _ => true
  | .oneOf is, some i => is.contains i
  | .oneOf _, none => false

/-- class and instance of a form the catalogue can construct -/
def YearDecl.resolveForm (y : YearDecl) (f : String) : Option (ClassDecl × Option String) :=
  match nameAndInstance f with
  | none => none
  | some (cn, inst) =>
    match y.findClass cn with
    | none => none
    | some c => if c.instRule.accepts inst then some (c, inst) else none

def mkCat (y : YearDecl) : Cat String String String Val String where
  sem := fun n =>
    match splitName n with
    | none => .err PyErr.internal.code
    | some (f, k) =>
      match y.resolveForm f with
      | none => .err PyErr.internal.code
      | some (c, inst) =>
        match c.lines.find? (fun d => d.name == k) with
        | none => .err PyErr.internal.code
        | some d => evalLine y c inst d
  formOfN := fun n => (splitName n).map (·.1)
  formOfI := fun n => (splitName n).map (·.1)
  status := fun f =>
    match nameAndInstance f with
    | none => .ctorError             -- `RuntimeError('Unexpected form name …')`
    | some (cn, inst) =>
      match y.findClass cn with
      | none => .unsupported
      | some c => if c.instRule.accepts inst then .ok else .ctorError
  fields := fun f =>
    match y.resolveForm f with
    | none => []
    | some (c, _) => c.lines.map fun d => f ++ "." ++ d.name
  required := fun f =>
    match y.resolveForm f with
    | none => []
    | some (c, _) => (c.lines.filter (·.required)).map fun d => f ++ "." ++ d.name
  inputs := fun f =>
    match y.resolveForm f with
    | none => []
    | some (c, _) => c.inputs.map fun d => f ++ "." ++ d.name
  parse := fun x text =>
    match splitName x with
    | none => none
    | some (f, k) =>
      match y.resolveForm f with
      | none => none
      | some (c, _) =>
        match c.inputs.find? (fun d => d.name == k) with
        | none => none
        | some d => parseInput y d.kind text

end HabuVerif.Dsl
