import HabuVerif.Core.Solver
import HabuVerif.Core.Inputs
import HabuVerif.Gen.CharTable
import HabuVerif.Dsl.Eval
/-!
# The shipped forms as a solver catalogue

`mkCat year` packages a translated `YearDecl` as a `Cat String String String Val String`, the
interface of the solver model (`Core/Solver.lean`) and of the metatheory (`Props/C01`, `C03`, …: they
hold for EVERY `Cat` with `CatWF`, hence for this one: `Proofs/DslCatWF.lean`).  Names are
`class[:instance].line`; the instance is a run-time parameter of every function.

Input parsing (`Cat.parse`) is `parseInput`: the model of `habutax.inputs` for ALL Unicode text of
`Core/Inputs.lean` (`Inputs.valid` / `Inputs.value` over the character table generated from the
running CPython, `Gen/CharTable.lean`; floats through `F64.ofDecimal`; the translator's regex AST
is mapped onto `Regex.Re`).  The `real` stream's input-text cases (`real_stream.run_inputs`)
exercise it through whole solves.  Core only.
-/
set_option autoImplicit false

namespace HabuVerif.Dsl
open HabuVerif

/-! ## `Input.valid` / `Input.value` through the model of `habutax.inputs` (`Core/Inputs.lean`) -/

/-- binary64 as the float carrier of the input / field model -/
def f64Ops : FloatOps F64 where
  zero := F64.zero
  ofLit := fun d => match d with
    | .finite neg mant e => F64.ofDecimal neg mant e
    | .inf neg => .inf neg
    | .nan _ => .nan
  isFinite := F64.isFinite
  roundN := F64.roundN
  fmt := fun x n => (F64.fmtFixed x n).toList

def Re.toRegex : Re → Regex.Re
  | .eps => .eps
  | .cls rs negated => .cls negated (rs.map fun r => (Char.ofNat r.1, Char.ofNat r.2))
  | .seq a b => .cat a.toRegex b.toRegex
  | .alt a b => .alt a.toRegex b.toRegex
  | .rep a lo hi => .rep a.toRegex lo hi
  | .bol => .bol
  | .eol => .eol
  | .unsupported => .empty

def enumIndex (year : YearDecl) (e : String) : Nat :=
  (year.enums.map (·.1)).findIdx (· == e)

def InputKind.toSpec (year : YearDecl) : InputKind → Inputs.InputSpec
  | .str => .str
  | .bool => .bool
  | .int => .int
  | .float => .float
  | .ssn => .ssn
  | .enum e allowEmpty =>
    .enum { ident := enumIndex year e,
            members := ((year.enums.lookup e).getD []).map String.toList } allowEmpty
  | .regex r => .regex r.toRegex

/-- `some v` iff `valid(text)`, and then `v = value(text)` (what `InputStore.__getitem__` returns) -/
def parseInput (year : YearDecl) (k : InputKind) (text : String) : Option Val :=
  let sp := k.toSpec year
  let T := PyStr.CharTable.cpython
  if !Inputs.valid T f64Ops sp text.toList then none
  else
    match Inputs.value T f64Ops sp text.toList with
    | .error _ => none
    | .ok v =>
      match v with
      | .none => some .none
      | .bool b => some (.bool b)
      | .int i => some (.int i)
      | .float x => some (.float x)
      | .str s => some (.str (String.ofList s))
      | .enumMember _ m =>
        (match k with
         | .enum e _ => some (.enumv e (String.ofList m))
         | _ => none)
      | _ => none

/-! ## Names -/

def splitOnChar (c : Char) (s : String) : List String :=
  (go [] s.toList).map String.ofList
where
  go (acc : List Char) : List Char → List (List Char)
    | [] => [acc.reverse]
    | d :: ds => if d == c then acc.reverse :: go [] ds else go (d :: acc) ds

/-- `form, key = name.split('.')` -/
def splitName (n : String) : Option (String × String) :=
  match splitOnChar '.' n with
  | [f, k] => some (f, k)
  | _ => none

/-- `form.name_and_instance` (`none`: more than one colon) -/
def nameAndInstance (f : String) : Option (String × Option String) :=
  match splitOnChar ':' f with
  | [c] => some (c, none)
  | [c, i] => some (c, some i)
  | _ => none

def YearDecl.findClass (y : YearDecl) (cname : String) : Option ClassDecl :=
  y.classes.find? fun c => c.name == cname

def InstRule.accepts : InstRule → Option String → Bool
  | .any, _ => true
  | .oneOf is, some i => is.contains i
  | .oneOf _, none => false

/-- `"." not in name` -/
def nameOk (s : String) : Bool := !s.toList.contains '.'

/-- the assertions `"." not in name` of `Form.__init__`, `Field.__init__`, `Input.__init__`: a class
that violates one cannot be instantiated -/
def ClassDecl.namesOk (c : ClassDecl) : Bool :=
  nameOk c.name && c.lines.all (fun d => nameOk d.name) && c.inputs.all (fun d => nameOk d.name)

/-- The solver's `_form_map = {f.form_name: f for f in form_list}` (of two classes with the same
name the LATER one wins), each class with the outcome of its naming assertions (computed once). -/
def YearDecl.formMap (y : YearDecl) : List (String × ClassDecl × Bool) :=
  y.classes.reverse.map fun c => (c.name, c, c.namesOk)

/-- Class and instance of a form the catalogue can construct.  A form name containing a dot (it can
only sit in the instance part, e.g. `w-2:1.5`) is rejected: in the real solver such a form makes
every line name `form.line` split into three parts, and the request dies with a `ValueError` in
`sort_keys` as soon as one of its lines is queued — an abort in both worlds (the model reports it
as a constructor error, the exception class differs). -/
def resolveIn (fm : List (String × ClassDecl × Bool)) (f : String) : Option (ClassDecl × Option String) :=
  if !nameOk f then none else
  match nameAndInstance f with
  | none => none
  | some (cn, inst) =>
    match fm.lookup cn with
    | none => none
    | some (c, ok) => if c.instRule.accepts inst && ok then some (c, inst) else none

def YearDecl.resolveForm (y : YearDecl) (f : String) : Option (ClassDecl × Option String) :=
  resolveIn y.formMap f

/-- the catalogue over a precomputed form map -/
def mkCatOf (y : YearDecl) (fm : List (String × ClassDecl × Bool)) :
    Cat String String String Val String where
  sem := fun n =>
    match splitName n with
    | none => .err PyErr.internal.code
    | some (f, k) =>
      match resolveIn fm f with
      | none => .err PyErr.internal.code
      | some (c, inst) =>
        match c.lines.find? (fun d => d.name == k) with
        | none => .err PyErr.internal.code
        | some d => evalLine y c inst d
  formOfN := fun n => (splitName n).map (·.1)
  formOfI := fun n => (splitName n).map (·.1)
  status := fun f =>
    match nameAndInstance f with
    | none => .ctorError             -- `RuntimeError('Unexpected form name …')`
    | some (cn, inst) =>
      match fm.lookup cn with
      | none => .unsupported
      | some (c, ok) => if nameOk f && c.instRule.accepts inst && ok then .ok else .ctorError
  fields := fun f =>
    match resolveIn fm f with
    | none => []
    | some (c, _) => c.lines.map fun d => f ++ "." ++ d.name
  required := fun f =>
    match resolveIn fm f with
    | none => []
    | some (c, _) => (c.lines.filter (·.required)).map fun d => f ++ "." ++ d.name
  inputs := fun f =>
    match resolveIn fm f with
    | none => []
    | some (c, _) => c.inputs.map fun d => f ++ "." ++ d.name
  parse := fun x text =>
    match splitName x with
    | none => none
    | some (f, k) =>
      match resolveIn fm f with
      | none => none
      | some (c, _) =>
        match c.inputs.find? (fun d => d.name == k) with
        | none => none
        | some d => parseInput y d.kind text

/-- the shipped forms of a year as a solver catalogue -/
def mkCat (y : YearDecl) : Cat String String String Val String := mkCatOf y y.formMap

end HabuVerif.Dsl
