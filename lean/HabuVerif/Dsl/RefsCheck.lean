import HabuVerif.Dsl.Refs
import HabuVerif.Dsl.Cat
/-!
# C10: a decision procedure for "every name a line definition can refer to resolves"

`refsV d` / `refsI d` (`Dsl/Refs.lean`) are patterns for the keys a line passes to `v[...]` / `i[...]`.
This file decides, for a year's catalogue, whether EVERY name such a pattern stands for — for every
instance the reading class can be instantiated with — resolves in `mkCat y`:

    formOfN name = some f  ∧  (status f = .ok ∧ name ∈ fields f   ∨   status f = .unsupported ∧ classOf f ∈ absent)

(`inputs f` for `i[...]`).  Soundness: `Proofs/RefsCheckSound.lean` (`yearOK_sound`).

Strings are hopeless in kernel-evaluated checks, so the procedure works on ASCII code lists
(`codes?`: the UTF-8 bytes of a name when they are all below 128; a name with any other character makes the
check FAIL, never pass).  The names of a year are converted once into an index (`mkIx : YearDecl → Option YearIx`);
the generated obligations state `mkIx year = some <literal>` once per year and then
`classRefsOK ⟨<literal>, absent⟩ bad class = true` per class against the literal.

What a pattern may look like to be accepted (anything else is answered `false`):
* every piece is a literal, a bounded `{n}` hole, a `oneOf` hole or — in a class whose constructor accepts only
  finitely many instances — the instance: finite expansion, every expanded key is checked;
* `lit "cls:"`, unbounded `{n}`, `lit ".key"` (the `for n in range(i['number_w-2'])` loops): the instance position of
  a class that accepts every instance; `cls:n` exists for every `n` and has the line.
Core only, executable.
-/
set_option autoImplicit false

namespace HabuVerif.Dsl

/-! ## ASCII codes of names -/

def allLt128 : List Nat → Bool
  | [] => true
  | n :: ns => Nat.blt n 128 && allLt128 ns

/-- the code points of an all-ASCII string (its UTF-8 bytes); `none` for any other string -/
def codes? (s : String) : Option (List Nat) :=
  if allLt128 (s.toByteArray.data.toList.map UInt8.toNat) then
    some (s.toByteArray.data.toList.map UInt8.toNat)
  else none

def codesAll? : List String → Option (List (List Nat))
  | [] => some []
  | s :: ss =>
    match codes? s with
    | none => none
    | some n =>
      match codesAll? ss with
      | none => none
      | some ns => some (n :: ns)

/-- decimal digits of `n` as codes (`str(n)`) -/
def digitsN (n : Nat) : List Nat := (Nat.toDigits 10 n).map Char.toNat

/-- split at the first occurrence of `x` -/
def splitAtN (x : Nat) : List Nat → Option (List Nat × List Nat)
  | [] => none
  | a :: as =>
    if a == x then some ([], as)
    else
      match splitAtN x as with
      | none => none
      | some lr => some (a :: lr.1, lr.2)

/-- `"." not in name` -/
def nameOkN (n : List Nat) : Bool := !n.contains 46

/-! ## The index of a year -/

/-- what the check needs to know about a class, in codes -/
structure ClassIx where
  name : List Nat
  /-- the constructor accepts every instance (and none) -/
  anyInst : Bool
  /-- otherwise: exactly these -/
  insts : List (List Nat)
  /-- `ClassDecl.namesOk` -/
  ok : Bool
  lines : List (List Nat)
  inputs : List (List Nat)
deriving DecidableEq, Repr, Inhabited

abbrev YearIx := List ClassIx

def ClassDecl.ix? (c : ClassDecl) : Option ClassIx :=
  match codes? c.name with
  | none => none
  | some n =>
    match codesAll? (c.lines.map (·.name)) with
    | none => none
    | some ls =>
      match codesAll? (c.inputs.map (·.name)) with
      | none => none
      | some is =>
        let ok := nameOkN n && ls.all nameOkN && is.all nameOkN
        match c.instRule with
        | .any => some { name := n, anyInst := true, insts := [], ok := ok, lines := ls, inputs := is }
        | .oneOf xs =>
          match codesAll? xs with
          | none => none
          | some xs' => some { name := n, anyInst := false, insts := xs', ok := ok, lines := ls, inputs := is }

def ixAll? : List ClassDecl → Option YearIx
  | [] => some []
  | c :: cs =>
    match c.ix? with
    | none => none
    | some e =>
      match ixAll? cs with
      | none => none
      | some es => some (e :: es)

/-- the index, in the order of `YearDecl.formMap` (of two classes with the same name the later one wins) -/
def mkIx (y : YearDecl) : Option YearIx := ixAll? y.classes.reverse

def lookupIx : YearIx → List Nat → Option ClassIx
  | [], _ => none
  | e :: es, cn => if cn == e.name then some e else lookupIx es cn

def ClassIx.accepts (e : ClassIx) : Option (List Nat) → Bool
  | none => e.anyInst
  | some i => e.anyInst || e.insts.contains i

/-- the line names (`v = true`) or the input names of a class -/
def ClassIx.names (e : ClassIx) (v : Bool) : List (List Nat) := if v then e.lines else e.inputs

/-- what every check is relative to: the year's index and the deliberately absent form classes -/
structure CEnv where
  ix : YearIx
  absent : List (List Nat)
deriving Repr, Inhabited

def mkEnv (y : YearDecl) (absent : List String) : Option CEnv :=
  match mkIx y with
  | none => none
  | some ix =>
    match codesAll? absent with
    | none => none
    | some a => some { ix := ix, absent := a }

/-! ## Concrete names -/

/-- form `f` (`cls` or `cls:inst`, no dot) is a form of the catalogue that has the key, or a
deliberately absent one -/
def formKeyOK (E : CEnv) (v : Bool) (f k : List Nat) : Bool :=
  match splitAtN 58 f with
  | none =>
    (match lookupIx E.ix f with
     | some e => e.ok && e.accepts none && (e.names v).contains k
     | none => E.absent.contains f)
  | some ci =>
    !ci.2.contains 58 &&
    (match lookupIx E.ix ci.1 with
     | some e => e.ok && e.accepts (some ci.2) && (e.names v).contains k
     | none => E.absent.contains ci.1)

/-- a qualified name `form.key` resolves -/
def nameOK (E : CEnv) (v : Bool) (m : List Nat) : Bool :=
  match splitAtN 46 m with
  | none => false
  | some fk => !fk.2.contains 46 && formKeyOK E v fk.1 fk.2

/-- a key read by a line of the class with index entry `own` (whatever its instance) resolves -/
def keyOK (E : CEnv) (v : Bool) (own : ClassIx) (k : List Nat) : Bool :=
  if k.contains 46 then nameOK E v k else (own.names v).contains k

/-! ## Patterns -/

def Piece.expand (inst : Option (List Nat)) : Piece → Option (List (List Nat))
  | .lit s =>
    (match codes? s with
     | none => none
     | some n => some [n])
  | .nat lo hi =>
    (match hi with
     | none => none
     | some h => some ((List.range' lo (h - lo)).map digitsN))
  | .oneOf ss => codesAll? ss
  | .inst =>
    (match inst with
     | none => none
     | some i => some [i])
  | .any => none

/-- all keys a pattern stands for (`inst`: the instance, when it is known) -/
def expandPat (inst : Option (List Nat)) : KeyPat → Option (List (List Nat))
  | [] => some [[]]
  | p :: ps =>
    match p.expand inst with
    | none => none
    | some as =>
      match expandPat inst ps with
      | none => none
      | some bs => some (as.flatMap fun a => bs.map fun b => a ++ b)

def keysOK (E : CEnv) (v : Bool) (own : ClassIx) : Option (List (List Nat)) → Bool
  | none => false
  | some ks => ks.all (keyOK E v own)

/-- `cls:{n}.key` for ALL `n`: `cls` accepts every instance and has the key (or is deliberately absent) -/
def starOK (E : CEnv) (v : Bool) (p : KeyPat) : Bool :=
  match p with
  | [.lit a, .nat _ none, .lit b] =>
    (match codes? a with
     | none => false
     | some aN =>
       match codes? b with
       | none => false
       | some bN =>
         match bN with
         | [] => false
         | b0 :: k =>
           b0 == 46 && !k.contains 46 &&
           (match splitAtN 58 aN with
            | none => false
            | some ci =>
              ci.2.isEmpty && !ci.1.contains 46 &&
              (match lookupIx E.ix ci.1 with
               | some e => e.ok && e.anyInst && (e.names v).contains k
               | none => E.absent.contains ci.1)))
  | _ => false

/-- every name the pattern stands for, read from a line of the class with entry `own`, resolves -/
def patOKIx (E : CEnv) (v : Bool) (own : ClassIx) (p : KeyPat) : Bool :=
  starOK E v p ||
  (if own.anyInst then keysOK E v own (expandPat none p)
   else own.insts.all fun i => keysOK E v own (expandPat (some i) p))

def lineRefsOK (E : CEnv) (own : ClassIx) (d : LineDecl) : Bool :=
  (refsV d).all (patOKIx E true own) && (refsI d).all (patOKIx E false own)

/-- the index entry of the class that `formMap` resolves `c.name` to -/
def ownIx (E : CEnv) (c : ClassDecl) : Option ClassIx :=
  match codes? c.name with
  | none => none
  | some n => lookupIx E.ix n

/-- the lines of class `cname` listed in `bad` (pairs class, line) -/
def badLines (bad : List (String × String)) (cname : String) : List String :=
  (bad.filter fun p => p.1 == cname).map (·.2)

def linesOK (E : CEnv) (own : ClassIx) (skip : List String) : List LineDecl → Bool
  | [] => true
  | d :: ds => (skip.contains d.name || lineRefsOK E own d) && linesOK E own skip ds

/-- all lines of the class, except those listed in `bad` -/
def classRefsOK (E : CEnv) (bad : List (String × String)) (c : ClassDecl) : Bool :=
  match ownIx E c with
  | none => false
  | some own =>
    match bad with
    | [] => linesOK E own [] c.lines
    | _ :: _ => linesOK E own (badLines bad c.name) c.lines

def classesRefsOK (E : CEnv) (bad : List (String × String)) : List ClassDecl → Bool
  | [] => true
  | c :: cs => classRefsOK E bad c && classesRefsOK E bad cs

/-! ## Structural scan: thresholds, attribute / name errors found by the translator -/

def threshKnown (ths : List (String × Thresh)) (name : Expr) : Bool :=
  match name with
  | .const v =>
    (match v with
     | .str n => (ths.lookup n).isSome
     | _ => false)
  | _ => false

/-- thresholds of the class that `self.form(f)` is an instance of -/
def thresholdsOf (y : YearDecl) (form : Expr) : Option (List (String × Thresh)) :=
  match form with
  | .const v =>
    (match v with
     | .str f => (y.classes.reverse.find? fun c => c.name == classOf f).map (·.thresholds)
     | _ => none)
  | _ => none

def raiseOK : PyErr → Bool
  | .attributeError => false
  | .nameError => false
  | .unsupported => false
  | .internal => false
  | _ => true

mutual
  /-- no `attrFail` / `unsupported` / `raise AttributeError|NameError` node, every threshold name is a constant
  of the threshold table it is looked up in -/
  def exprOK (y : YearDecl) (ths : List (String × Thresh)) : Expr → Bool
    | .const _ => true
    | .var _ => true
    | .readI e => exprOK y ths e
    | .readV e => exprOK y ths e
    | .fstr parts => exprsOK y ths parts
    | .bin _ a b => exprOK y ths a && exprOK y ths b
    | .neg a => exprOK y ths a
    | .pos a => exprOK y ths a
    | .not a => exprOK y ths a
    | .and a b => exprOK y ths a && exprOK y ths b
    | .or a b => exprOK y ths a && exprOK y ths b
    | .cmp first _ rest => exprOK y ths first && exprsOK y ths rest
    | .ite c a b => exprOK y ths c && exprOK y ths a && exprOK y ths b
    | .call _ args => exprsOK y ths args
    | .method _ obj args => exprOK y ths obj && exprsOK y ths args
    | .attr obj _ => exprOK y ths obj
    | .attrFail _ => false
    | .raise e => raiseOK e
    | .threshold name _ key => threshKnown ths name && exprOK y ths key
    | .thresholdOf form name _ key =>
      (match thresholdsOf y form with
       | none => false
       | some ths' => threshKnown ths' name) && exprOK y ths key
    | .loadedForm form => exprOK y ths form
    | .instance => true
    | .notImpl args => exprsOK y ths args
    | .tuple xs => exprsOK y ths xs
    | .list xs => exprsOK y ths xs
    | .dict _ vs => exprsOK y ths vs
    | .index e idx => exprOK y ths e && exprOK y ths idx
    | .slice e lo hi => exprOK y ths e && exprOK y ths lo && exprOK y ths hi
    | .listComp elt _ iter conds => exprOK y ths elt && exprOK y ths iter && exprsOK y ths conds
    | .sumGen elt _ iter conds => exprOK y ths elt && exprOK y ths iter && exprsOK y ths conds
    | .callHelper _ args _ body => exprsOK y ths args && stmtsOK y ths body
    | .global n => (y.globals.lookup n).isSome
    | .unsupported _ => false
  def exprsOK (y : YearDecl) (ths : List (String × Thresh)) : List Expr → Bool
    | [] => true
    | e :: es => exprOK y ths e && exprsOK y ths es
  def stmtOK (y : YearDecl) (ths : List (String × Thresh)) : Stmt → Bool
    | .assign _ e => exprOK y ths e
    | .unpack _ e => exprOK y ths e
    | .aug _ _ e => exprOK y ths e
    | .ifS c thn els => exprOK y ths c && stmtsOK y ths thn && stmtsOK y ths els
    | .forS _ iter body => exprOK y ths iter && stmtsOK y ths body
    | .ret e => exprOK y ths e
    | .expr e => exprOK y ths e
    | .append _ e => exprOK y ths e
    | .assertS c msg => exprOK y ths c && exprOK y ths msg
    | .continueS => true
    | .breakS => true
    | .pass => true
  def stmtsOK (y : YearDecl) (ths : List (String × Thresh)) : List Stmt → Bool
    | [] => true
    | s :: ss => stmtOK y ths s && stmtsOK y ths ss
end

def lineScanOK (y : YearDecl) (c : ClassDecl) (d : LineDecl) : Bool := stmtsOK y c.thresholds d.body

def classScanOK (y : YearDecl) (c : ClassDecl) : Bool := c.lines.all (lineScanOK y c)

/-! ## The interface of the specification -/

def patOKV (y : YearDecl) (absent : List String) (c : ClassDecl) (p : KeyPat) : Bool :=
  match mkEnv y absent with
  | none => false
  | some E =>
    match ownIx E c with
    | none => false
    | some own => patOKIx E true own p

def patOKI (y : YearDecl) (absent : List String) (c : ClassDecl) (p : KeyPat) : Bool :=
  match mkEnv y absent with
  | none => false
  | some E =>
    match ownIx E c with
    | none => false
    | some own => patOKIx E false own p

def lineOK (y : YearDecl) (absent : List String) (c : ClassDecl) (d : LineDecl) : Bool :=
  (match mkEnv y absent with
   | none => false
   | some E =>
     match ownIx E c with
     | none => false
     | some own => lineRefsOK E own d) && lineScanOK y c d

def classOK (y : YearDecl) (absent : List String) (c : ClassDecl) : Bool :=
  (match mkEnv y absent with
   | none => false
   | some E => classRefsOK E [] c) && classScanOK y c

def yearOK (y : YearDecl) (absent : List String) : Bool :=
  (match mkEnv y absent with
   | none => false
   | some E => classesRefsOK E [] y.classes) && y.classes.all (classScanOK y)

/-! ## Witnesses (for reports; not used by any proof) -/

def showCodes (n : List Nat) : String := String.ofList (n.map Char.ofNat)

def Piece.show : Piece → String
  | .lit s => s
  | .nat lo none => "{" ++ toString lo ++ "..}"
  | .nat lo (some hi) => "{" ++ toString lo ++ ".." ++ toString hi ++ "}"
  | .oneOf ss => "{" ++ "|".intercalate ss ++ "}"
  | .inst => "{instance}"
  | .any => "{?}"

def KeyPat.show (p : KeyPat) : String := String.join (p.map Piece.show)

/-- the patterns of a class that do not resolve: (line, `v`/`i`, pattern) -/
def classFailures (E : CEnv) (c : ClassDecl) : List (String × String × String) :=
  match ownIx E c with
  | none => [("", "", "class name is not ASCII or not in the index")]
  | some own =>
    c.lines.flatMap fun d =>
      ((refsV d).filter fun p => !patOKIx E true own p).map (fun p => (d.name, "v", KeyPat.show p)) ++
      ((refsI d).filter fun p => !patOKIx E false own p).map (fun p => (d.name, "i", KeyPat.show p))

end HabuVerif.Dsl
