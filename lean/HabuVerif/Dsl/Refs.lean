import HabuVerif.Dsl.Eval
/-!
# Static analysis: the names a line definition can read

`refsV d` / `refsI d` are computed from the SYNTAX of a line definition (all paths, every branch,
every helper body) and list patterns for the keys it passes to `v[...]` / `i[...]`.  A key pattern is
a sequence of pieces: literal text, a hole over a range of naturals (`{n}` of a `range` loop or a
resolved default), a hole over a finite explicit set of strings (a loop over a literal list or over
the characters of a literal string), the form's own instance, or an unknown part.  A name is read
through `FormAccessor.__getitem__`: a key without a dot belongs to the line's own form
(`KeyPat.Names`).

Soundness (`Proofs/DslRefs.lean`, `eval_reads_in_refs`): every `readV n` / `readI x` node that
occurs ANYWHERE in the strategy tree `evalLine … d` — for all answers of the stores, hence for all
stores — reads a name that is the qualification of a key matching one of these patterns.
Core only, executable (the C10 check evaluates it on the generated catalogue).
-/
set_option autoImplicit false

namespace HabuVerif.Dsl

/-- one piece of a key pattern -/
inductive Piece where
  /-- exactly this text -/
  | lit (s : String)
  /-- the decimal digits of a natural number `n` with `lo ≤ n` and `n < hi` (if given) -/
  | nat (lo : Nat) (hi : Option Nat)
  /-- one of these texts -/
  | oneOf (ss : List String)
  /-- the instance of the line's own form (`"None"` when it has none) -/
  | inst
  /-- unknown text -/
  | any
deriving DecidableEq, Repr, Inhabited

abbrev KeyPat := List Piece

/-- abstract values: what the analysis knows about the value of an expression -/
inductive AVal where
  | any
  /-- a `str` matching the pieces -/
  | str (p : List Piece)
  /-- an `int` `n` (not a `bool`) with `lo ≤ n` and `n < hi` (if given) -/
  | int (lo : Nat) (hi : Option Nat)
  /-- `self.form().instance()`: the instance as a `str`, or `None` -/
  | inst
  /-- something whose items, when it is iterated, are all described by `a` -/
  | items (a : AVal)
  /-- an `int` (not a `bool`) that is one of these naturals -/
  | intOneOf (ns : List Nat)
deriving DecidableEq, Repr, Inhabited

abbrev AEnv := List (String × AVal)

def AEnv.get (Γ : AEnv) (x : String) : AVal := (Γ.lookup x).getD .any

/-- forget everything about the given variables -/
def AEnv.erase (Γ : AEnv) (xs : List String) : AEnv := Γ.filter fun p => !xs.contains p.1

structure Refs where
  v : List KeyPat := []
  i : List KeyPat := []
deriving Repr, Inhabited

instance : Append Refs := ⟨fun a b => { v := a.v ++ b.v, i := a.i ++ b.i }⟩

def Refs.empty : Refs := {}

/-- the pieces a value of this description contributes to an f-string (or is, as a key) -/
def AVal.pieces : AVal → List Piece
  | .str p => p
  | .int lo hi => [.nat lo hi]
  | .inst => [.inst]
  | .intOneOf ns => [.oneOf (ns.map fun n => toString n)]
  | _ => [.any]

def optMax : Option Nat → Option Nat → Option Nat
  | some a, some b => some (max a b)
  | _, _ => none

/-- exclusive bound of a sum of two bounded naturals -/
def optAddHi : Option Nat → Option Nat → Option Nat
  | some a, some b => some (a + b - 1)
  | _, _ => none

/-- a `str` known to be one of finitely many texts -/
def AVal.strChoices : AVal → Option (List String)
  | .str [.lit s] => some [s]
  | .str [.oneOf ss] => some ss
  | _ => none

/-- a bounded `int` description as the finite list of naturals it stands for -/
def AVal.natChoices : AVal → Option (List Nat)
  | .int lo (some hi) => some (List.range' lo (hi - lo))
  | .intOneOf ns => some ns
  | _ => none

/-- union of two lists of naturals (elements of the second that the first lacks are appended) -/
def natUnion (x y : List Nat) : List Nat := x ++ y.filter fun n => !x.contains n

/-- the interval hull `[min, max + 1)` of a list of naturals -/
def natHull (u : List Nat) : AVal :=
  .int (u.foldl min (u.headD 0)) (some (u.foldl max 0 + 1))

/-- join of two bounded `int` descriptions: the interval hull when it adds no number (or when the
union has more than 64 elements), else the finite union itself -/
def joinNats (x y : List Nat) : AVal :=
  let u := natUnion x y
  let lo := u.foldl min (u.headD 0)
  let hi := u.foldl max 0 + 1
  if u.length == hi - lo then natHull u
  else if u.length ≤ 64 then .intOneOf u
  else natHull u

/-- least upper bound, coarsely -/
def AVal.join (a b : AVal) : AVal :=
  if a = b then a else
  match a.natChoices, b.natChoices with
  | some x, some y => joinNats x y
  | _, _ =>
    match a, b with
    | .int l1 h1, .int l2 h2 => .int (min l1 l2) (optMax h1 h2)
    | _, _ =>
      match a.strChoices, b.strChoices with
      | some x, some y => .str [.oneOf (x ++ y)]
      | _, _ => .any

def AVal.joinAll : List AVal → AVal
  | [] => .any
  | [a] => a
  | a :: as => a.join (joinAll as)

/-- what iterating yields -/
def AVal.itemsOf : AVal → AVal
  | .items a => a
  | .str [.lit s] => .str [.oneOf (s.toList.map fun c => String.singleton c)]
  | _ => .any

/-- description of a constant -/
def absVal : Val → AVal
  | .str s => .str [.lit s]
  | .int i => if i ≥ 0 then .int i.toNat (some (i.toNat + 1)) else .any
  | .list xs => .items (AVal.joinAll (xs.map elem))
  | .tuple xs => .items (AVal.joinAll (xs.map elem))
  | _ => .any
where
  elem : Val → AVal
    | .str s => .str [.lit s]
    | .int i => if i ≥ 0 then .int i.toNat (some (i.toNat + 1)) else .any
    | _ => .any

/-- an exclusive upper bound for the elements of `range(b)` -/
def AVal.rangeHi : AVal → Option Nat
  | .int _ (some h) => some (h - 1)
  | _ => none

/-! ## variables a statement can assign -/

mutual
  def modifies : Stmt → List String
    | .assign x _ => [x]
    | .unpack xs _ => xs
    | .aug x _ _ => [x]
    | .ifS _ thn els => modifiesB thn ++ modifiesB els
    | .forS xs _ body => xs ++ modifiesB body
    | .append x _ => [x]
    | _ => []
  def modifiesB : List Stmt → List String
    | [] => []
    | s :: ss => modifies s ++ modifiesB ss
end

/-- bind loop / comprehension targets: a single target gets the item description, tuple targets
are unknown -/
def AEnv.bind (Γ : AEnv) (xs : List String) (a : AVal) : AEnv :=
  match xs with
  | [x] => (x, a) :: Γ
  | _ => Γ.erase xs

/-! ## the analysis -/

/-- assignment in an abstract environment (same shape as `Env.set`) -/
def AEnv.set (Γ : AEnv) (x : String) (a : AVal) : AEnv :=
  if (Γ.lookup x).isSome then Γ.map fun p => if p.1 == x then (x, a) else p
  else (x, a) :: Γ

/-- the abstract environment in which a helper body runs: its resolved defaults, then its
parameters described by the arguments (bound as the evaluator binds them), minus everything the
body assigns -/
def helperEnv (params : List String) (args : List AVal) (defaults : List (String × Val))
    (body : List Stmt) : AEnv :=
  AEnv.erase ((params.zip args).foldl (fun e p => e.set p.1 p.2) (defaults.map fun p => (p.1, absVal p.2)))
    (modifiesB body)

/-- inside a `for` body the (single) target is described by the items, unless the body assigns it -/
def loopEnv (Γ : AEnv) (xs : List String) (a : AVal) (body : List Stmt) : AEnv :=
  match xs with
  | [x] => if (modifiesB body).contains x then Γ else (x, a) :: Γ
  | _ => Γ


/-- description of `a op b` -/
def absBin : BinOp → AVal → AVal → AVal
  | .add, .items x, .items y => .items (x.join y)
  | .add, .int l1 h1, .int l2 h2 => .int (l1 + l2) (optAddHi h1 h2)
  | _, _, _ => .any

/-- description of a builtin call -/
def absCall : Builtin → List AVal → AVal
  | .range, [b] => .items (.int 0 b.rangeHi)
  | .range, [.int lo _, b] => .items (.int lo b.rangeHi)
  | .list, [x] => .items x.itemsOf
  | _, _ => .any

mutual
  /-- description of the value of an expression -/
  def absE (Γ : AEnv) : Expr → AVal
    | .const v => absVal v
    | .var x => Γ.get x
    | .fstr parts => .str (absParts Γ parts)
    | .instance => .inst
    | .call f args => absCall f (absEs Γ args)
    | .bin op a b => absBin op (absE Γ a) (absE Γ b)
    | .list xs => .items (AVal.joinAll (absEs Γ xs))
    | .tuple xs => .items (AVal.joinAll (absEs Γ xs))
    | .ite _ a b => (absE Γ a).join (absE Γ b)
    | .readI _ => .any
    | .readV _ => .any
    | .neg _ => .any
    | .pos _ => .any
    | .not _ => .any
    | .and _ _ => .any
    | .or _ _ => .any
    | .cmp _ _ _ => .any
    | .method _ _ _ => .any
    | .attr _ _ => .any
    | .attrFail _ => .any
    | .raise _ => .any
    | .threshold _ _ _ => .any
    | .thresholdOf _ _ _ _ => .any
    | .loadedForm _ => .any
    | .notImpl _ => .any
    | .dict _ _ => .any
    | .index _ _ => .any
    | .slice _ _ _ => .any
    | .listComp _ _ _ _ => .any
    | .sumGen _ _ _ _ => .any
    | .callHelper _ _ _ _ => .any
    | .global _ => .any
    | .unsupported _ => .any
  def absEs (Γ : AEnv) : List Expr → List AVal
    | [] => []
    | e :: es => absE Γ e :: absEs Γ es
  /-- the pieces of an f-string -/
  def absParts (Γ : AEnv) : List Expr → List Piece
    | [] => []
    | e :: es => (absE Γ e).pieces ++ absParts Γ es
end

mutual
  def refsE (Γ : AEnv) : Expr → Refs
    | .const _ => {}
    | .var _ => {}
    | .readI e => { i := [(absE Γ e).pieces] } ++ refsE Γ e
    | .readV e => { v := [(absE Γ e).pieces] } ++ refsE Γ e
    | .fstr parts => refsEs Γ parts
    | .bin _ a b => refsE Γ a ++ refsE Γ b
    | .neg a => refsE Γ a
    | .pos a => refsE Γ a
    | .not a => refsE Γ a
    | .and a b => refsE Γ a ++ refsE Γ b
    | .or a b => refsE Γ a ++ refsE Γ b
    | .cmp first _ rest => refsE Γ first ++ refsEs Γ rest
    | .ite c a b => refsE Γ c ++ refsE Γ a ++ refsE Γ b
    | .call _ args => refsEs Γ args
    | .method _ obj args => refsE Γ obj ++ refsEs Γ args
    | .attr obj _ => refsE Γ obj
    | .attrFail obj => refsE Γ obj
    | .raise _ => {}
    | .threshold name _ key => refsE Γ name ++ refsE Γ key
    | .thresholdOf form name _ key => refsE Γ form ++ refsE Γ name ++ refsE Γ key
    | .loadedForm form => refsE Γ form
    | .instance => {}
    | .notImpl args => refsEs Γ args
    | .tuple xs => refsEs Γ xs
    | .list xs => refsEs Γ xs
    | .dict _ vs => refsEs Γ vs
    | .index e idx => refsE Γ e ++ refsE Γ idx
    | .slice e lo hi => refsE Γ e ++ refsE Γ lo ++ refsE Γ hi
    | .listComp elt xs iter conds =>
      refsE Γ iter ++ refsEs (Γ.bind xs (absE Γ iter).itemsOf) conds ++
        refsE (Γ.bind xs (absE Γ iter).itemsOf) elt
    | .sumGen elt xs iter conds =>
      refsE Γ iter ++ refsEs (Γ.bind xs (absE Γ iter).itemsOf) conds ++
        refsE (Γ.bind xs (absE Γ iter).itemsOf) elt
    | .callHelper params args defaults body =>
      refsEs Γ args ++ refsB (helperEnv params (absEs Γ args) defaults body) body
    | .global _ => {}
    | .unsupported _ => {}
  def refsEs (Γ : AEnv) : List Expr → Refs
    | [] => {}
    | e :: es => refsE Γ e ++ refsEs Γ es
  /-- statements; `Γ` must not describe a variable the statement can assign (see `bodyEnv`) -/
  def refsS (Γ : AEnv) : Stmt → Refs
    | .assign _ e => refsE Γ e
    | .unpack _ e => refsE Γ e
    | .aug _ _ e => refsE Γ e
    | .ifS c thn els => refsE Γ c ++ refsB Γ thn ++ refsB Γ els
    | .forS xs iter body =>
      refsE Γ iter ++ refsB (loopEnv Γ xs (absE Γ iter).itemsOf body) body
    | .ret e => refsE Γ e
    | .expr e => refsE Γ e
    | .append _ e => refsE Γ e
    | .assertS c msg => refsE Γ c ++ refsE Γ msg
    | .continueS => {}
    | .breakS => {}
    | .pass => {}
  def refsB (Γ : AEnv) : List Stmt → Refs
    | [] => {}
    | s :: ss => refsS Γ s ++ refsB Γ ss
end

/-- the abstract environment of a line body: its resolved defaults minus every assigned variable -/
def bodyEnv (d : LineDecl) : AEnv :=
  AEnv.erase (d.defaults.map fun p => (p.1, absVal p.2)) (modifiesB d.body)

/-- key patterns of all `v[...]` reads of a line definition -/
def refsV (d : LineDecl) : List KeyPat := (refsB (bodyEnv d) d.body).v
/-- key patterns of all `i[...]` reads of a line definition -/
def refsI (d : LineDecl) : List KeyPat := (refsB (bodyEnv d) d.body).i

/-! ## meaning of patterns -/

/-- the text a piece stands for -/
def Piece.Matches (inst : Option String) : Piece → String → Prop
  | .lit t, s => s = t
  | .nat lo hi, s => ∃ n : Nat, lo ≤ n ∧ (∀ h, hi = some h → n < h) ∧ s = toString n
  | .oneOf ss, s => s ∈ ss
  | .inst, s => s = (match inst with | some i => i | none => "None")
  | .any, _ => True

/-- a key matches a pattern when it is the concatenation of texts matching the pieces -/
def KeyPat.Matches (inst : Option String) : KeyPat → String → Prop
  | [], s => s = ""
  | p :: ps, s => ∃ a b, s = a ++ b ∧ p.Matches inst a ∧ KeyPat.Matches inst ps b

/-- the names a key pattern stands for, seen from a line of form `form[:inst]` -/
def KeyPat.Names (form : String) (inst : Option String) (p : KeyPat) (n : String) : Prop :=
  ∃ k, KeyPat.Matches inst p k ∧
    n = (if k.toList.contains '.' then k else formName form inst ++ "." ++ k)

end HabuVerif.Dsl
