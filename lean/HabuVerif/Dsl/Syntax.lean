import HabuVerif.Dsl.Val
/-!
# First-order syntax of the Python subset in which habutax line definitions are written

The translator (`tools/translate.py`) turns every line function (a lambda or a local `def`, with the
helpers it calls inlined as `Expr.callHelper`, closure variables and defaults resolved to constants
against the live objects) into these terms.  A construct outside the subset becomes
`Expr.unsupported what`, which evaluates to an error — never to an approximation.  Core only.
-/
set_option autoImplicit false

namespace HabuVerif.Dsl

/-- a run of int constants (keeps generated tables compact) -/
def ints (xs : List Int) : List Val := xs.map Val.int

inductive BinOp where
  | add | sub | mul | div
deriving DecidableEq, Repr, Inhabited

inductive CmpOp where
  | eq | ne | lt | le | gt | ge | in_ | notIn | is_ | isNot
deriving DecidableEq, Repr, Inhabited

/-- builtin functions (and `math.ceil`) -/
inductive Builtin where
  | sum | min | max | float | str | len | round | ceil | list | range
deriving DecidableEq, Repr, Inhabited

/-- methods of `str` values -/
inductive Method where
  | upper | lower | strip | split | join
deriving DecidableEq, Repr, Inhabited

mutual
  inductive Expr where
    /-- literal or a closure / default / global value resolved by the translator -/
    | const (v : Val)
    /-- local variable (parameter, assigned name, loop or comprehension variable) -/
    | var (x : String)
    /-- `i[e]` -/
    | readI (e : Expr)
    /-- `v[e]` -/
    | readV (e : Expr)
    /-- f-string: the parts are evaluated left to right, formatted with `format(x, '')`, concatenated -/
    | fstr (parts : List Expr)
    | bin (op : BinOp) (a b : Expr)
    | neg (a : Expr)
    | pos (a : Expr)
    | not (a : Expr)
    /-- `a and b` / `a or b`: the result is one of the OPERANDS -/
    | and (a b : Expr)
    | or (a b : Expr)
    /-- `first op₁ e₁ op₂ e₂ …` (chained, short-circuit, each operand evaluated once) -/
    | cmp (first : Expr) (ops : List CmpOp) (rest : List Expr)
    /-- `a if c else b` -/
    | ite (c a b : Expr)
    | call (f : Builtin) (args : List Expr)
    /-- `obj.m(args)` for the modelled `str` methods -/
    | method (m : Method) (obj : Expr) (args : List Expr)
    /-- `obj.name` on a run-time value: member access through an enum member (`status.Single`
    where `status` is itself a member) -/
    | attr (obj : Expr) (name : String)
    /-- `obj.name` where NO Python type of the model has an attribute `name`: evaluate `obj`, then
    `AttributeError` -/
    | attrFail (obj : Expr)
    /-- an exception that the translator found by resolving against the live objects
    (`s.not_implmented` → `AttributeError`) -/
    | raise (e : PyErr)
    /-- `self.threshold(name[, key])` -/
    | threshold (name : Expr) (hasKey : Bool) (key : Expr)
    /-- `self.form(f).threshold(name[, key])`: `Field.form(f)` indexes the solver's loaded forms -/
    | thresholdOf (form : Expr) (name : Expr) (hasKey : Bool) (key : Expr)
    /-- `self.form(f)` used for its effect only (the statement `s.form('1040')`): the form must be
    loaded, the value (a form object) is not a DSL value and evaluates to `None` -/
    | loadedForm (form : Expr)
    /-- `self.form().instance()` -/
    | instance
    /-- `self.not_implemented([detail])`: the argument is evaluated first -/
    | notImpl (args : List Expr)
    | tuple (xs : List Expr)
    | list (xs : List Expr)
    /-- dict literal with constant scalar keys -/
    | dict (ks : List Val) (vs : List Expr)
    | index (e idx : Expr)
    /-- `e[lo:hi]`; an absent bound is `const none` -/
    | slice (e lo hi : Expr)
    /-- `[elt for x₁, … in iter if c₁ if c₂ …]`; the variables are local to the comprehension -/
    | listComp (elt : Expr) (xs : List String) (iter : Expr) (conds : List Expr)
    /-- `sum(elt for x in iter if …)`: the generator is consumed lazily (an addition error
    pre-empts the evaluation of later elements) -/
    | sumGen (elt : Expr) (xs : List String) (iter : Expr) (conds : List Expr)
    /-- call of a helper `def` (local to `__init__` or module level), inlined: the arguments are
    evaluated left to right and bound to `params` in a FRESH local scope together with the
    resolved `defaults`; the value is what the body returns (`None` when it falls off the end) -/
    | callHelper (params : List String) (args : List Expr) (defaults : List (String × Val)) (body : List Stmt)
    /-- module-level constant too large to inline (`TAX_TABLE`) -/
    | global (name : String)
    /-- construct outside the subset; evaluates to `PyErr.unsupported` -/
    | unsupported (what : String)

  inductive Stmt where
    | assign (x : String) (e : Expr)
    /-- `a, b = e` -/
    | unpack (xs : List String) (e : Expr)
    /-- `x op= e` -/
    | aug (x : String) (op : BinOp) (e : Expr)
    | ifS (c : Expr) (thn els : List Stmt)
    /-- `for x in iter:` / `for a, b in iter:` -/
    | forS (xs : List String) (iter : Expr) (body : List Stmt)
    | ret (e : Expr)
    | expr (e : Expr)
    /-- `x.append(e)` on a local list -/
    | append (x : String) (e : Expr)
    /-- `assert c, msg`: the message (`const none` when absent) is evaluated only when `c` fails -/
    | assertS (c msg : Expr)
    | continueS
    | breakS
    | pass
end

instance : Inhabited Expr := ⟨.const .none⟩
instance : Inhabited Stmt := ⟨.pass⟩

/-! ## Declarations -/

/-- the typed-field classes of `habutax.fields` -/
inductive FieldKind where
  | str | bool | int
  | float (places : Nat)
  | enum (e : String)
deriving DecidableEq, Repr, Inhabited

/-- tiny regular-expression AST for `RegexInput` (what `re.match` needs for the shipped patterns) -/
inductive Re where
  | eps
  /-- one character out of a union of inclusive code-point ranges -/
  | cls (ranges : List (Nat × Nat)) (negated : Bool)
  | seq (a b : Re)
  | alt (a b : Re)
  /-- greedy bounded repetition `a{lo,hi}`; `hi = none` is unbounded -/
  | rep (a : Re) (lo : Nat) (hi : Option Nat)
  /-- `^` -/
  | bol
  /-- `$`: at the end or before a final newline -/
  | eol
  /-- pattern construct outside the modelled fragment: nothing matches AND the input is flagged -/
  | unsupported
deriving Repr, Inhabited

/-- the input classes of `habutax.inputs` -/
inductive InputKind where
  | str | bool | int | float | ssn
  | enum (e : String) (allowEmpty : Bool)
  | regex (r : Re)
deriving Repr, Inhabited

structure InputDecl where
  name : String
  kind : InputKind
deriving Repr, Inhabited

/-- one line (field) of a form class -/
structure LineDecl where
  name : String
  kind : FieldKind
  required : Bool
  /-- the value function's parameters after `(self, inputs, values)` with their default values,
  and ad-hoc closure values that stay local names -/
  defaults : List (String × Val)
  body : List Stmt

inductive ThreshKey where
  | one (v : Val)
  | many (vs : List Val)
deriving Repr, Inhabited

inductive Thresh where
  | scalar (v : Val)
  | table (rows : List (ThreshKey × Val))
deriving Repr, Inhabited

/-- which instances the class constructor accepts (established by the translator by calling it) -/
inductive InstRule where
  /-- any instance, also none -/
  | any
  /-- exactly these (an `assert instance in […]` in `__init__`) -/
  | oneOf (is : List String)
deriving Repr, Inhabited

structure ClassDecl where
  name : String
  instRule : InstRule
  inputs : List InputDecl
  /-- in the order of `Form.fields()`: required lines first -/
  lines : List LineDecl
  thresholds : List (String × Thresh)

structure YearDecl where
  year : Nat
  classes : List ClassDecl
  /-- enum identifier ↦ member names, in definition order -/
  enums : List (String × List String)
  /-- large module-level constants referenced by `Expr.global` -/
  globals : List (String × Val)

end HabuVerif.Dsl
