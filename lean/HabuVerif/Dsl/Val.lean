import HabuVerif.Py.F64
/-!
# Dynamic Python values and the operators / builtins the form definitions use

`Val` is the universe of values a habutax line definition can compute with.  Every operation returns
`Except PyErr Val`, the error being the Python exception class the real operation raises.  The
semantics follow CPython 3.12.1 and are checked against it by the `dsl` correspondence stream
(`tools/harness/dsl_stream.py`).  Anything a form could write that is NOT modelled answers
`PyErr.unsupported` (never a silently approximated value).  Core only.
-/
set_option autoImplicit false

namespace HabuVerif.Dsl
open HabuVerif

/-- Python exception classes a line definition can raise by itself (plus two model-side markers). -/
inductive PyErr where
  | typeError | zeroDivisionError | keyError | indexError | attributeError | assertionError
  | valueError | overflowError | nameError
  | unsupported    -- the construct / value combination is outside the modelled subset
  | internal       -- ill-formed generated term (arity etc.); never produced by a well-formed translation
deriving DecidableEq, Repr, Inhabited

/-- the code carried by `Tree.err` -/
def PyErr.code : PyErr → Nat
  | .typeError => 1 | .zeroDivisionError => 2 | .keyError => 3 | .indexError => 4
  | .attributeError => 5 | .assertionError => 6 | .valueError => 7 | .overflowError => 8
  | .nameError => 9 | .unsupported => 90 | .internal => 91

def PyErr.ofCode : Nat → Option PyErr
  | 1 => some .typeError | 2 => some .zeroDivisionError | 3 => some .keyError | 4 => some .indexError
  | 5 => some .attributeError | 6 => some .assertionError | 7 => some .valueError
  | 8 => some .overflowError | 9 => some .nameError | 90 => some .unsupported | 91 => some .internal
  | _ => none

/-- name of the Python exception class (`UnboundLocalError` is a `NameError`) -/
def PyErr.pyName : PyErr → String
  | .typeError => "TypeError" | .zeroDivisionError => "ZeroDivisionError" | .keyError => "KeyError"
  | .indexError => "IndexError" | .attributeError => "AttributeError"
  | .assertionError => "AssertionError" | .valueError => "ValueError"
  | .overflowError => "OverflowError" | .nameError => "NameError"
  | .unsupported => "Unsupported" | .internal => "Internal"

/-- Python values. `enumv e m` is member `m` of the enum class identified by `e` (the translator
gives every enum class a unique identifier: two classes with the same `__name__` stay distinct).
`dict` keeps insertion order as two parallel lists. -/
inductive Val where
  | none
  | bool (b : Bool)
  | int (i : Int)
  | float (x : F64)
  | str (s : String)
  | enumv (e m : String)
  | tuple (xs : List Val)
  | list (xs : List Val)
  | dict (ks vs : List Val)
deriving Repr, Inhabited

abbrev R := Except PyErr

namespace Val

/-! ## numeric view -/

/-- ints and bools as `Int`, floats as `F64` -/
inductive Num where
  | i (n : Int)
  | f (x : F64)

def num? : Val → Option Num
  | .bool b => some (.i (if b then 1 else 0))
  | .int i => some (.i i)
  | .float x => some (.f x)
  | _ => Option.none

/-- `PyLong_AsDouble`: `OverflowError` beyond the double range -/
def intToFloatOf (o : Option F64) : R F64 :=
  match o with
  | some x => .ok x
  | Option.none => .error .overflowError

/-- (split in two so that facts about the conversion can be proved by cases on an abstract option,
without the elaborator normalising `F64.ofInt i` under the `match`) -/
def intToFloat (i : Int) : R F64 := intToFloatOf (F64.ofInt i)

def Num.toF : Num → R F64
  | .i n => intToFloat n
  | .f x => .ok x

/-- three-way comparison of numbers; `none` when a nan is involved -/
def cmpNum : Num → Num → Option Ordering
  | .i a, .i b => some (compare a b)
  | .f x, .i b => F64.cmpInt x b
  | .i a, .f y => (F64.cmpInt y a).map Ordering.swap
  | .f x, .f y =>
    if F64.lt x y then some .lt else if F64.lt y x then some .gt
    else if F64.eq x y then some .eq else Option.none

/-! ## truthiness, equality -/

def truthy : Val → Bool
  | .none => false
  | .bool b => b
  | .int i => i != 0
  | .float x => !x.isZero
  | .str s => !s.isEmpty
  | .enumv _ _ => true
  | .tuple xs => !xs.isEmpty
  | .list xs => !xs.isEmpty
  | .dict ks _ => !ks.isEmpty

/-- `==` on scalars (everything that is not a container); containers are never equal to scalars -/
def scalarEq : Val → Val → Bool
  | .none, .none => true
  | .str s, .str t => s == t
  | .enumv e m, .enumv e' m' => e == e' && m == m'
  | .bool a, .bool b => a == b
  | .bool a, .int j => (if a then 1 else 0) == j
  | .int i, .bool b => i == (if b then 1 else 0)
  | .int i, .int j => i == j
  | .float x, .float y => F64.eq x y
  | .float x, .int j => F64.eqInt x j
  | .int i, .float y => F64.eqInt y i
  | .float x, .bool b => F64.eqInt x (if b then 1 else 0)
  | .bool a, .float y => F64.eqInt y (if a then 1 else 0)
  | _, _ => false

/-- dict look-up. INVARIANT of the model: dict keys are scalars (the translator only emits dict
literals with constant scalar keys), so key equality is `scalarEq` for every probe. -/
def dictFind (k : Val) : List Val → List Val → Option Val
  | k' :: ks, v :: vs => if scalarEq k k' then some v else dictFind k ks vs
  | _, _ => Option.none

mutual
  /-- Python `==` (never raises for these types). Object identity is not modelled, so
  `nan == nan` is `False` also inside containers (CPython short-cuts `x is y` there). -/
  def pyEq : Val → Val → Bool
    | .tuple xs, b => (match b with | .tuple ys => pyEqList xs ys | _ => false)
    | .list xs, b => (match b with | .list ys => pyEqList xs ys | _ => false)
    | .dict ks vs, b =>
      (match b with
       | .dict ks' vs' => ks.length == ks'.length && dictSub ks vs ks' vs'
       | _ => false)
    | a, b => scalarEq a b
  termination_by structural a => a
  def pyEqList : List Val → List Val → Bool
    | [], ys => ys.isEmpty
    | x :: xs, ys => (match ys with | y :: ys' => pyEq x y && pyEqList xs ys' | [] => false)
  termination_by structural xs => xs
  /-- every `(k, v)` of the first dict occurs in the second one -/
  def dictSub : List Val → List Val → List Val → List Val → Bool
    | ks, v :: vs, ks', vs' =>
      (match ks with
       | k :: ks1 =>
         (match dictFind k ks' vs' with
          | some v' => pyEq v v'
          | Option.none => false) && dictSub ks1 vs ks' vs'
       | [] => true)
    | _, [], _, _ => true
  termination_by structural _ vs => vs
end

/-! ## type tags (for `isinstance(key, type(requested_key))` in `Form.threshold`) -/

inductive Tag where
  | none | bool | int | float | str | enum (e : String) | tuple | list | dict
deriving DecidableEq, Repr

def tag : Val → Tag
  | .none => .none | .bool _ => .bool | .int _ => .int | .float _ => .float | .str _ => .str
  | .enumv e _ => .enum e | .tuple _ => .tuple | .list _ => .list | .dict _ _ => .dict

/-- `isinstance(a, type(b))` (the only subclass relation among these types: `bool <: int`) -/
def isInstanceOfTypeOf (a b : Val) : Bool :=
  a.tag == b.tag || (a.tag == .bool && b.tag == .int)

/-! ## arithmetic -/

def repeatList {α : Type} (xs : List α) (n : Int) : List α :=
  (List.replicate n.toNat xs).flatten

/-- sequence repetition is modelled up to a million elements (beyond that CPython's answer depends
on the memory available: `MemoryError` / `OverflowError`) -/
def repeatOk {α : Type} (xs : List α) (n : Int) : Bool := n.toNat * xs.length ≤ 1000000

def asIndexInt : Val → Option Int
  | .bool b => some (if b then 1 else 0)
  | .int i => some i
  | _ => Option.none

def add (a b : Val) : R Val :=
  match a.num?, b.num? with
  | some (.i x), some (.i y) => .ok (.int (x + y))
  | some x, some y => do
    let fx ← x.toF
    let fy ← y.toF
    pure (.float (F64.add fx fy))
  | _, _ =>
    match a, b with
    | .str s, .str t => .ok (.str (s ++ t))
    | .list xs, .list ys => .ok (.list (xs ++ ys))
    | .tuple xs, .tuple ys => .ok (.tuple (xs ++ ys))
    | _, _ => .error .typeError

def sub (a b : Val) : R Val :=
  match a.num?, b.num? with
  | some (.i x), some (.i y) => .ok (.int (x - y))
  | some x, some y => do
    let fx ← x.toF
    let fy ← y.toF
    pure (.float (F64.sub fx fy))
  | _, _ => .error .typeError

def mul (a b : Val) : R Val :=
  match a.num?, b.num? with
  | some (.i x), some (.i y) => .ok (.int (x * y))
  | some x, some y => do
    let fx ← x.toF
    let fy ← y.toF
    pure (.float (F64.mul fx fy))
  | _, _ =>
    match a, asIndexInt b, asIndexInt a, b with
    | .str s, some n, _, _ => seqRepeat s.toList n fun cs => .str (String.ofList cs)
    | .list xs, some n, _, _ => seqRepeat xs n .list
    | .tuple xs, some n, _, _ => seqRepeat xs n .tuple
    | _, _, some n, .str s => seqRepeat s.toList n fun cs => .str (String.ofList cs)
    | _, _, some n, .list xs => seqRepeat xs n .list
    | _, _, some n, .tuple xs => seqRepeat xs n .tuple
    | _, _, _, _ => .error .typeError
where
  seqRepeat {α : Type} (xs : List α) (n : Int) (mk : List α → Val) : R Val :=
    if repeatOk xs n then .ok (mk (repeatList xs n)) else .error .unsupported

/-- `a / b`: true division. `int / int` is correctly rounded (CPython `long_true_divide`). -/
def div (a b : Val) : R Val :=
  match a.num?, b.num? with
  | some (.i x), some (.i y) =>
    if y = 0 then .error .zeroDivisionError
    else if x = 0 then .ok (.float (F64.finite (decide (y < 0)) 0 0))
    else
      match F64.ofScaled (decide ((x < 0) ≠ (y < 0))) (x.natAbs * F64.one) y.natAbs with
      | .inf _ => .error .overflowError
      | r => .ok (.float r)
  | some x, some y => do
    let fx ← x.toF
    let fy ← y.toF
    match F64.div fx fy with
    | some r => pure (.float r)
    | Option.none => throw .zeroDivisionError
  | _, _ => .error .typeError

def neg : Val → R Val
  | .bool b => .ok (.int (if b then -1 else 0))
  | .int i => .ok (.int (-i))
  | .float x => .ok (.float (F64.neg x))
  | _ => .error .typeError

def pos : Val → R Val
  | .bool b => .ok (.int (if b then 1 else 0))
  | .int i => .ok (.int i)
  | .float x => .ok (.float x)
  | _ => .error .typeError

/-! ## ordering -/

inductive OrdOp where
  | lt | le | gt | ge
deriving DecidableEq, Repr

def OrdOp.holds : OrdOp → Ordering → Bool
  | .lt, o => o == .lt
  | .le, o => o != .gt
  | .gt, o => o == .gt
  | .ge, o => o != .lt

def cmpChars : List Char → List Char → Ordering
  | [], [] => .eq
  | [], _ :: _ => .lt
  | _ :: _, [] => .gt
  | c :: cs, d :: ds => if c.toNat < d.toNat then .lt else if d.toNat < c.toNat then .gt else cmpChars cs ds

mutual
  /-- `a <op> b` for the ordering operators -/
  def ordCmp (op : OrdOp) : Val → Val → R Bool
    | .str s, .str t => .ok (op.holds (cmpChars s.toList t.toList))
    | .list xs, .list ys => ordCmpList op xs ys
    | .tuple xs, .tuple ys => ordCmpList op xs ys
    | a, b =>
      match a.num?, b.num? with
      | some x, some y =>
        match cmpNum x y with
        | some o => .ok (op.holds o)
        | Option.none => .ok false
      | _, _ => .error .typeError
  /-- sequences: the first pair of unequal elements decides, else the lengths -/
  def ordCmpList (op : OrdOp) : List Val → List Val → R Bool
    | [], [] => .ok (op.holds .eq)
    | [], _ :: _ => .ok (op.holds .lt)
    | _ :: _, [] => .ok (op.holds .gt)
    | x :: xs, y :: ys => if pyEq x y then ordCmpList op xs ys else ordCmp op x y
end

/-! ## strings -/

/-- `str.isspace` for one character (Unicode 15, as in CPython 3.12) -/
def isPySpace (c : Char) : Bool :=
  let n := c.toNat
  (0x09 ≤ n && n ≤ 0x0D) || (0x1C ≤ n && n ≤ 0x20) || n == 0x85 || n == 0xA0 || n == 0x1680 ||
  (0x2000 ≤ n && n ≤ 0x200A) || n == 0x2028 || n == 0x2029 || n == 0x202F || n == 0x205F || n == 0x3000

def stripChars (cs : List Char) : List Char :=
  ((cs.dropWhile isPySpace).reverse.dropWhile isPySpace).reverse

/-- `s.strip()` -/
def pyStrip (s : String) : String := String.ofList (stripChars s.toList)

/-- `s.strip(chars)` -/
def pyStripSet (s chars : String) : String :=
  let set := chars.toList
  String.ofList (((s.toList.dropWhile set.contains).reverse.dropWhile set.contains).reverse)

def isAsciiStr (cs : List Char) : Bool := cs.all fun c => c.toNat < 128

def upperAscii (c : Char) : Char := if 'a' ≤ c ∧ c ≤ 'z' then Char.ofNat (c.toNat - 32) else c
def lowerAscii (c : Char) : Char := if 'A' ≤ c ∧ c ≤ 'Z' then Char.ofNat (c.toNat + 32) else c

/-- `s.upper()` — exact on ASCII strings; other strings are outside the model -/
def pyUpper (s : String) : R String :=
  let cs := s.toList
  if isAsciiStr cs then .ok (String.ofList (cs.map upperAscii)) else .error .unsupported

def pyLower (s : String) : R String :=
  let cs := s.toList
  if isAsciiStr cs then .ok (String.ofList (cs.map lowerAscii)) else .error .unsupported

def isPrefix : List Char → List Char → Bool
  | [], _ => true
  | _ :: _, [] => false
  | p :: ps, c :: cs => p == c && isPrefix ps cs

def isSubstr (p : List Char) : List Char → Bool
  | [] => p.isEmpty
  | c :: cs => isPrefix p (c :: cs) || isSubstr p cs

/-- `s.split(sep)` for a non-empty separator, on characters (fuel = length of the text) -/
def splitOnChars (sep : List Char) : Nat → List Char → List Char → List (List Char)
  | 0, acc, rest => [acc.reverse ++ rest]
  | _ + 1, acc, [] => [acc.reverse]
  | fuel + 1, acc, c :: cs =>
    if isPrefix sep (c :: cs) then acc.reverse :: splitOnChars sep fuel [] ((c :: cs).drop sep.length)
    else splitOnChars sep fuel (c :: acc) cs

/-- `s.split()`: runs of whitespace separate, no empty pieces -/
def splitWs : List Char → List Char → List (List Char)
  | acc, [] => if acc.isEmpty then [] else [acc.reverse]
  | acc, c :: cs =>
    if isPySpace c then (if acc.isEmpty then splitWs [] cs else acc.reverse :: splitWs [] cs)
    else splitWs (c :: acc) cs

def natToDigits (n : Nat) : String := toString n

/-! ### `repr(float)` (= `str(float)`, `format(x, '')`): shortest digit string that round-trips -/

/-- `⌊log10 (N / D)⌋` for `N, D > 0`: estimate from the bit lengths, then correct -/
def log10Floor (N D : Nat) : Int :=
  let est : Int := (((N.log2 : Int) - (D.log2 : Int)) * 30103) / 100000
  -- is 10^k ≤ N / D ?
  let le (k : Int) : Bool := if k ≥ 0 then 10 ^ k.toNat * D ≤ N else D ≤ N * 10 ^ (-k).toNat
  let rec up (fuel : Nat) (k : Int) : Int :=
    match fuel with
    | 0 => k
    | f + 1 => if le (k + 1) then up f (k + 1) else k
  let rec down (fuel : Nat) (k : Int) : Int :=
    match fuel with
    | 0 => k
    | f + 1 => if le k then k else down f (k - 1)
  up 8 (down 8 est)

/-- the shortest decimal `digits × 10^(decpt - #digits)` that rounds to the finite positive double
`m·2^e` (scaled units); among the shortest the one closest to it (David Gay's mode 0, which
`float_repr_style = 'short'` uses) -/
def shortestDigits (m e : Nat) : Nat × Int :=
  let N := m * 2 ^ e
  let D := F64.one
  let k := log10Floor N D
  let x := F64.finite false m e
  let roundTrips (d : Nat) (ex : Int) : Bool := F64.ofDecimal false d ex == F64.mk false m e
  let rec search (fuel p : Nat) : Nat × Int :=
    match fuel with
    | 0 => (0, 0)
    | f + 1 =>
      -- p significant digits: unit 10^(k - p + 1)
      let ex : Int := k - p + 1
      let (num, den) : Nat × Nat := if ex ≥ 0 then (N, D * 10 ^ ex.toNat) else (N * 10 ^ (-ex).toNat, D)
      let lo := num / den
      let hi := lo + 1
      let okLo := lo > 0 && roundTrips lo ex
      let okHi := roundTrips hi ex
      -- distance comparison: |x - lo| vs |hi - x| in units: 2*num - 2*lo*den vs den
      let pick : Option Nat :=
        if okLo && okHi then
          (let r := num - lo * den
           if 2 * r < den then some lo else if 2 * r > den then some hi
           else if lo % 2 == 0 then some lo else some hi)
        else if okLo then some lo else if okHi then some hi else Option.none
      match pick with
      | some d =>
        -- hi may be 10^p (one more digit): normalise trailing zeros below
        (d, ex)
      | Option.none => if p ≥ 17 then (F64.rneDiv num den, ex) else search f (p + 1)
  let _ := x
  search 18 1

def stripTrailingZeros : Nat → Nat → Int → Nat × Int
  | 0, d, ex => (d, ex)
  | f + 1, d, ex => if d != 0 && d % 10 == 0 then stripTrailingZeros f (d / 10) (ex + 1) else (d, ex)

/-- `repr(x)` -/
def floatRepr (x : F64) : String :=
  match x with
  | .nan => "nan"
  | .inf neg => if neg then "-inf" else "inf"
  | .finite neg m e =>
    let sign := if neg then "-" else ""
    if m == 0 then sign ++ "0.0" else
    let (d0, ex0) := shortestDigits m e
    let (d, ex) := stripTrailingZeros 400 d0 ex0
    let digits := (toString d).toList
    let nd : Int := digits.length
    let decpt : Int := nd + ex          -- value = 0.DIGITS × 10^decpt
    if decpt > 16 || decpt ≤ -4 then
      -- exponent notation: d[.ddd]e±XX
      let mant := match digits with
        | [] => "0"
        | c :: rest => if rest.isEmpty then String.singleton c else String.singleton c ++ "." ++ String.ofList rest
      let ex10 : Int := decpt - 1
      let es := toString ex10.natAbs
      let es := if es.length < 2 then "0" ++ es else es
      sign ++ mant ++ "e" ++ (if ex10 < 0 then "-" else "+") ++ es
    else if decpt ≤ 0 then
      sign ++ "0." ++ String.ofList (List.replicate (-decpt).toNat '0') ++ String.ofList digits
    else if decpt ≥ nd then
      sign ++ String.ofList digits ++ String.ofList (List.replicate (decpt - nd).toNat '0') ++ ".0"
    else
      sign ++ String.ofList (digits.take decpt.toNat) ++ "." ++ String.ofList (digits.drop decpt.toNat)

def intToStr (i : Int) : String := if i < 0 then "-" ++ toString i.natAbs else toString i.natAbs

/-- `str(x)` and `format(x, '')` agree on the supported types; containers are outside the model
(no shipped line formats them) -/
def pyStr : Val → R String
  | .none => .ok "None"
  | .bool b => .ok (if b then "True" else "False")
  | .int i => .ok (intToStr i)
  | .str s => .ok s
  | .enumv _ m => .ok m
  | .float x => .ok (floatRepr x)
  | _ => .error .unsupported

/-! ## containers -/

/-- the items an iteration over the value yields -/
def iterItems : Val → R (List Val)
  | .list xs => .ok xs
  | .tuple xs => .ok xs
  | .str s => .ok (s.toList.map fun c => .str (String.singleton c))
  | .dict ks _ => .ok ks
  | _ => .error .typeError

def pyLen : Val → R Val
  | .list xs => .ok (.int xs.length)
  | .tuple xs => .ok (.int xs.length)
  | .str s => .ok (.int s.toList.length)
  | .dict ks _ => .ok (.int ks.length)
  | _ => .error .typeError

/-- normalise an index against a length (`IndexError` outside) -/
def normIndex (i : Int) (len : Nat) : R Nat :=
  let j := if i < 0 then i + len else i
  if 0 ≤ j ∧ j < len then .ok j.toNat else .error .indexError

/-- `a[b]` -/
def getItem (a b : Val) : R Val :=
  match a with
  | .dict ks vs =>
    (match b with
     | .list _ => .error .typeError      -- unhashable
     | .dict _ _ => .error .typeError
     | _ => match dictFind b ks vs with
       | some v => .ok v
       | Option.none => .error .keyError)
  | .list xs =>
    (match asIndexInt b with
     | some i => do let k ← normIndex i xs.length; pure (xs.getD k .none)
     | Option.none => .error .typeError)
  | .tuple xs =>
    (match asIndexInt b with
     | some i => do let k ← normIndex i xs.length; pure (xs.getD k .none)
     | Option.none => .error .typeError)
  | .str s =>
    (match asIndexInt b with
     | some i => do
       let cs := s.toList
       let k ← normIndex i cs.length
       pure (.str (String.singleton (cs.getD k ' ')))
     | Option.none => .error .typeError)
  | _ => .error .typeError

/-- slice bound: `None` or an int (bools count), clamped as `PySlice_AdjustIndices` does for step 1 -/
def sliceBound (v : Val) (len : Nat) (dflt : Nat) : R Nat :=
  match v with
  | .none => .ok dflt
  | _ =>
    match asIndexInt v with
    | some i =>
      let j := if i < 0 then i + len else i
      .ok (if j < 0 then 0 else if j > len then len else j.toNat)
    | Option.none => .error .typeError

def sliceList {α : Type} (xs : List α) (lo hi : Nat) : List α := (xs.take hi).drop lo

/-- `a[lo:hi]` -/
def getSlice (a lo hi : Val) : R Val :=
  match a with
  | .list xs => do
    let l ← sliceBound lo xs.length 0
    let h ← sliceBound hi xs.length xs.length
    pure (.list (sliceList xs l h))
  | .tuple xs => do
    let l ← sliceBound lo xs.length 0
    let h ← sliceBound hi xs.length xs.length
    pure (.tuple (sliceList xs l h))
  | .str s => do
    let cs := s.toList
    let l ← sliceBound lo cs.length 0
    let h ← sliceBound hi cs.length cs.length
    pure (.str (String.ofList (sliceList cs l h)))
  | _ => .error .typeError

/-- `a in b` -/
def contains (a b : Val) : R Bool :=
  match b with
  | .list xs => .ok (xs.any (pyEq a))
  | .tuple xs => .ok (xs.any (pyEq a))
  | .dict ks _ =>
    (match a with
     | .list _ => .error .typeError
     | .dict _ _ => .error .typeError
     | _ => .ok (ks.any (pyEq a)))
  | .str t =>
    (match a with
     | .str s => .ok (isSubstr s.toList t.toList)
     | _ => .error .typeError)
  | _ => .error .typeError

/-- `a is b`. Decidable in the model for singletons and enum members; identity of numbers, strings
and containers depends on object allocation and is outside the model. -/
def pyIs (a b : Val) : R Bool :=
  match a, b with
  | .none, .none => .ok true
  | .bool x, .bool y => .ok (x == y)
  | .enumv e m, .enumv e' m' => .ok (e == e' && m == m')
  | _, _ =>
    let single (v : Val) : Bool := match v with
      | .none => true | .bool _ => true | .enumv _ _ => true | _ => false
    if single a || single b then .ok false else .error .unsupported

/-! ## builtins -/

/-- `range(a, b)` as a list -/
def rangeList (a b : Int) : List Val :=
  (List.range (b - a).toNat).map fun (k : Nat) => .int (a + (k : Int))

/-- `range(...)` is materialised (CPython iterates it lazily): modelled up to a million items -/
def pyRange : List Val → R Val
  | [b] => match asIndexInt b with
    | some n => if n ≤ 1000000 then .ok (.list (rangeList 0 n)) else .error .unsupported
    | Option.none => .error .typeError
  | [a, b] => match asIndexInt a, asIndexInt b with
    | some m, some n => if n - m ≤ 1000000 then .ok (.list (rangeList m n)) else .error .unsupported
    | _, _ => .error .typeError
  | _ => .error .unsupported

/-- first extremal element: `max` replaces on `item > best`, `min` on `item < best` -/
def extremum (isMax : Bool) : Val → List Val → R Val
  | best, [] => .ok best
  | best, x :: xs => do
    let better ← ordCmp (if isMax then .gt else .lt) x best
    extremum isMax (if better then x else best) xs

def pyMinMax (isMax : Bool) : List Val → R Val
  | [] => .error .typeError
  | [it] => do
    let xs ← iterItems it
    match xs with
    | [] => throw .valueError
    | x :: rest => extremum isMax x rest
  | x :: rest => extremum isMax x rest

/-- state of CPython 3.12's `sum()`: C-long accumulator, compensated double accumulator, or the
generic `result = result + item` loop -/
inductive SumSt where
  | intAcc (i : Int)
  | floatAcc (f c : F64)
  | generic (v : Val)

def sumInit : Val → SumSt
  | .int i => if F64.fitsLong i then .intAcc i else .generic (.int i)
  | .float x => .floatAcc x F64.zero
  | v => .generic v

def sumStep : SumSt → Val → R SumSt
  | .intAcc acc, item =>
    (match item with
     | .float x =>
       -- leaves the int loop with `acc + x`, a float: the float loop continues
       (match add (.int acc) (.float x) with
        | .ok (.float r) => .ok (.floatAcc r F64.zero)
        | .ok v => .ok (.generic v)
        | .error e => .error e)
     | _ =>
       match asIndexInt item with
       | some b =>
         if F64.fitsLong b && F64.fitsLong (acc + b) then .ok (.intAcc (acc + b))
         else .ok (.generic (.int (acc + b)))
       | Option.none => do
         let r ← add (.int acc) item
         pure (.generic r))
  | .floatAcc f c, item =>
    (match item with
     | .float x => let (t, c') := F64.sumStep f c x; .ok (.floatAcc t c')
     | _ =>
       match asIndexInt item with
       | some b =>
         if F64.fitsLong b then .ok (.floatAcc (F64.add f (F64.ofIntD b)) c)
         else do
           let r ← add (.float (F64.sumFinish f c)) item
           pure (.generic r)
       | Option.none => do
         let r ← add (.float (F64.sumFinish f c)) item
         pure (.generic r))
  | .generic v, item => do
    let r ← add v item
    pure (.generic r)

def sumFinish : SumSt → Val
  | .intAcc i => .int i
  | .floatAcc f c => .float (F64.sumFinish f c)
  | .generic v => v

def sumFold : SumSt → List Val → R Val
  | st, [] => .ok (sumFinish st)
  | st, x :: xs => do
    let st' ← sumStep st x
    sumFold st' xs

/-- `sum(iterable, start)`; a `str` start is rejected up front -/
def pySum (it start : Val) : R Val :=
  match start with
  | .str _ => .error .typeError
  | _ => do
    let xs ← iterItems it
    sumFold (sumInit start) xs

/-! ### `float(str)` (numeric literals of the grammar the harness and the forms use) -/

def digitVal (c : Char) : Option Nat :=
  if '0' ≤ c ∧ c ≤ '9' then some (c.toNat - '0'.toNat) else Option.none

/-- digits with single underscores between them; returns value, count and the rest -/
def takeDigits : List Char → Nat → Nat → Bool → Option (Nat × Nat × List Char)
  | c :: cs, acc, n, _ =>
    match digitVal c with
    | some d => takeDigits cs (acc * 10 + d) (n + 1) true
    | Option.none =>
      if c == '_' then
        (match cs with
         | d :: _ => if (digitVal d).isSome && n > 0 then takeDigits cs acc n false else Option.none
         | [] => Option.none)
      else some (acc, n, c :: cs)
  | [], acc, n, _ => some (acc, n, [])

/-- Python `float(s)` for ASCII input: strip, sign, `inf`/`infinity`/`nan`, decimal literal with
optional fraction and exponent, underscores between digits. Non-ASCII input is outside the model. -/
def parseFloatStr (s : String) : R F64 :=
  let cs0 := s.toList
  if !isAsciiStr cs0 then .error .unsupported else
  let cs := stripChars cs0
  let (neg, body) : Bool × List Char := match cs with
    | '-' :: r => (true, r)
    | '+' :: r => (false, r)
    | r => (false, r)
  let low := String.ofList (body.map lowerAscii)
  if low == "inf" || low == "infinity" then .ok (F64.inf neg)
  else if low == "nan" then .ok F64.nan
  else
    match takeDigits body 0 0 false with
    | Option.none => .error .valueError
    | some (ip, ni, rest) =>
      let fracPart : Option (Nat × Nat × List Char) := match rest with
        | '.' :: r =>
          (match r with
           | d :: _ => if (digitVal d).isSome then takeDigits r 0 0 false else some (0, 0, r)
           | [] => some (0, 0, []))
        | r => some (0, 0, r)
      match fracPart with
      | Option.none => .error .valueError
      | some (fp, nf, rest2) =>
        if ni + nf == 0 then .error .valueError else
        let mant := ip * 10 ^ nf + fp
        match rest2 with
        | [] => .ok (F64.ofDecimal neg mant (-(nf : Int)))
        | e :: r =>
          if e == 'e' || e == 'E' then
            let (eneg, r') : Bool × List Char := match r with
              | '-' :: q => (true, q)
              | '+' :: q => (false, q)
              | q => (false, q)
            match r' with
            | d :: _ =>
              if (digitVal d).isSome then
                match takeDigits r' 0 0 false with
                | some (ev, _, []) =>
                  let ex : Int := if eneg then -(ev : Int) else ev
                  .ok (F64.ofDecimal neg mant (ex - nf))
                | _ => .error .valueError
              else .error .valueError
            | [] => .error .valueError
          else .error .valueError

/-- Python `int(s)` base 10 for ASCII input -/
def parseIntStr (s : String) : R Int :=
  let cs0 := s.toList
  if !isAsciiStr cs0 then .error .unsupported else
  let cs := stripChars cs0
  let (neg, body) : Bool × List Char := match cs with
    | '-' :: r => (true, r)
    | '+' :: r => (false, r)
    | r => (false, r)
  match body with
  | d :: _ =>
    if (digitVal d).isSome then
      match takeDigits body 0 0 false with
      | some (v, _, []) => .ok (if neg then -(v : Int) else v)
      | _ => .error .valueError
    else .error .valueError
  | [] => .error .valueError

def pyFloat : Val → R Val
  | .float x => .ok (.float x)
  | .int i => do let x ← intToFloat i; pure (.float x)
  | .bool b => .ok (.float (if b then F64.ofIntD 1 else F64.zero))
  | .str s => do let x ← parseFloatStr s; pure (.float x)
  | _ => .error .typeError

/-- round a Python int to a multiple of `10^k` (half to even), for `round(i, -k)` -/
def roundIntNeg (i : Int) (k : Nat) : Int :=
  let p : Nat := 10 ^ k
  let q := F64.rneDiv i.natAbs p
  if i < 0 then -((q * p : Nat) : Int) else ((q * p : Nat) : Int)

/-- the end of `round(x, -k)`: `OverflowError` when the rounded value is not finite -/
def roundFloatNegOf (z : F64) : R Val :=
  match z with
  | .inf _ => .error .overflowError
  | r => .ok (.float r)

/-- `round(x, -k)` for a float: the nearest multiple of `10^k` (ties to even on the exact value),
then the nearest double; `OverflowError` when that is not finite -/
def roundFloatNeg (x : F64) (k : Nat) : R Val :=
  match x with
  | .finite neg m e =>
    if k > 308 then .ok (.float (.finite neg 0 0)) else
    let q := F64.rneDiv (m * 2 ^ e) (F64.one * 10 ^ k)
    -- (the final `inf → OverflowError` test is a helper over the ABSTRACT rounded value, so that proofs can case-split
    -- on it without normalising `… * 10^k * 2^1074`; same behaviour)
    roundFloatNegOf (F64.ofScaled neg (q * 10 ^ k * F64.one) 1)
  | _ => .ok (.float x)

def floatToInt (x : F64) (r : Option Int) : R Val :=
  match r with
  | some i => .ok (.int i)
  | Option.none => if x.isNaN then .error .valueError else .error .overflowError

/-- `round(x)` / `round(x, n)` -/
def pyRound : List Val → R Val
  | [x] => pyRound1 x
  | [x, .none] => pyRound1 x
  | [x, n] =>
    (match asIndexInt n with
     | Option.none => .error .typeError
     | some k =>
       match x with
       | .float f => if k ≥ 0 then .ok (.float (F64.roundN f k.toNat)) else roundFloatNeg f (-k).toNat
       | .int i => .ok (.int (if k ≥ 0 then i else roundIntNeg i (-k).toNat))
       | .bool b =>
         let i : Int := if b then 1 else 0
         .ok (.int (if k ≥ 0 then i else roundIntNeg i (-k).toNat))
       | _ => .error .typeError)
  | _ => .error .typeError
where
  pyRound1 : Val → R Val
    | .float f => floatToInt f (F64.roundInt f)
    | .int i => .ok (.int i)
    | .bool b => .ok (.int (if b then 1 else 0))
    | _ => .error .typeError

/-- `math.ceil(x)` -/
def pyCeil : Val → R Val
  | .float f => floatToInt f (F64.ceil f)
  | .int i => .ok (.int i)
  | .bool b => .ok (.int (if b then 1 else 0))
  | _ => .error .typeError

def pyList (v : Val) : R Val := do
  let xs ← iterItems v
  pure (.list xs)

/-- `sep.join(it)` -/
def pyJoin (sep it : Val) : R Val :=
  match sep with
  | .str s => do
    let xs ← iterItems it
    let strs ← xs.mapM fun x => match x with
      | .str t => (.ok t : R String)
      | _ => .error .typeError
    pure (.str (s.intercalate strs))
  | _ => .error .attributeError

end Val
end HabuVerif.Dsl
