import HabuVerif.Core.Tree
import HabuVerif.Core.Tracker
import HabuVerif.Core.Solver
import HabuVerif.Core.SortKeys
import HabuVerif.Core.Toy
